#!/bin/bash
# usage: tools/check.sh <Cxx> <quick|thorough> [runs=N workers=N base=N]
#        tools/check.sh <Cxx> --replay <file> [log]
# Rebuilds the simulator from /repo's current working tree (hooks on), runs the check, writes evidence/<Cxx>.json.
# exit 0 held | exit 1 + "VIOLATION property=<id> replay=<path>" | exit 2 build / harness / watchdog trouble
set -uo pipefail
cd "$(dirname "$0")/.."
. tools/env.sh
PROP="${1:?property id}"; shift
MODE="${1:?quick|thorough|--replay}"; shift
KIND=""
case "$PROP" in C18) KIND="race";; esac
BIN="$(tools/build.sh $KIND)" || exit 2
RACEDIR="/dev/shm/dsim-racelog-$$"; mkdir -p "$RACEDIR"; trap 'rm -rf "$RACEDIR"' EXIT
export GORACE="halt_on_error=0 exitcode=0 log_path=$RACEDIR/race"
ulimit -c 0
if [ "$MODE" = "--replay" ]; then
  "$BIN" replay "$@"; exit $?
fi
"$BIN" check "$PROP" "$MODE" "$@"; exit $?
