// automut: a small source-level mutator for the sensitivity campaign (tools/automut.sh).
//   automut list <file.go>            prints "<index> <kind> <line> <func>" for every mutation site
//   automut apply <file.go> <index>   prints the mutated source on stdout
// Operators (chosen to imitate the defects found by hand: dropped errors, dropped calls, flipped conditions):
//   negate-if      if c {...}            -> if !(c) {...}
//   drop-call      a statement that is only a call (x.f(...))  -> removed
//   return-nil     return err / return x.Err / return <ident ending in Err|err>  -> return nil   (single result functions)
//   flip-eq        a == b  <->  a != b   (inside if conditions only)
//   drop-else      if c {A} else {B}     -> if c {A}
package main

import (
	"bytes"
	"fmt"
	"go/ast"
	"go/parser"
	"go/printer"
	"go/token"
	"os"
	"strconv"
	"strings"
)

type site struct {
	kind string
	pos  token.Pos
	fn   string
	do   func()
}

func main() {
	if len(os.Args) < 3 {
		fmt.Fprintln(os.Stderr, "usage: automut list|apply file [index]")
		os.Exit(2)
	}
	fset := token.NewFileSet()
	f, err := parser.ParseFile(fset, os.Args[2], nil, parser.ParseComments)
	if err != nil {
		fmt.Fprintln(os.Stderr, err)
		os.Exit(2)
	}
	var sites []site
	for _, d := range f.Decls {
		fd, ok := d.(*ast.FuncDecl)
		if !ok || fd.Body == nil {
			continue
		}
		name := fd.Name.Name
		if fd.Recv != nil && len(fd.Recv.List) > 0 {
			var b bytes.Buffer
			printer.Fprint(&b, fset, fd.Recv.List[0].Type)
			name = b.String() + "." + name
		}
		if strings.Contains(name, "CheckIntegrity") && os.Getenv("AUTOMUT_INTEGRITY") == "" && false {
			continue
		}
		singleErrResult := fd.Type.Results != nil && len(fd.Type.Results.List) == 1 && len(fd.Type.Results.List[0].Names) <= 1
		if singleErrResult {
			if id, ok := fd.Type.Results.List[0].Type.(*ast.Ident); !ok || id.Name != "error" {
				singleErrResult = false
			}
		}
		var walkBlock func(list *[]ast.Stmt)
		walkStmt := func(s ast.Stmt) {}
		walkBlock = func(list *[]ast.Stmt) {
			for i := range *list {
				i := i
				st := (*list)[i]
				switch v := st.(type) {
				case *ast.ExprStmt:
					if call, ok := v.X.(*ast.CallExpr); ok {
						// skip logging and simPoint instrumentation
						var b bytes.Buffer
						printer.Fprint(&b, fset, call.Fun)
						fn := b.String()
						if !strings.Contains(fn, "pfxlog") && !strings.Contains(fn, "simPoint") && !strings.Contains(fn, "Logger") {
							sites = append(sites, site{"drop-call", st.Pos(), name, func() { (*list)[i] = &ast.EmptyStmt{Semicolon: st.Pos()} }})
						}
					}
				case *ast.ReturnStmt:
					if singleErrResult && len(v.Results) == 1 {
						var b bytes.Buffer
						printer.Fprint(&b, fset, v.Results[0])
						txt := b.String()
						if txt != "nil" && (strings.HasSuffix(txt, "err") || strings.HasSuffix(txt, "Err") || strings.HasSuffix(txt, "GetError()")) {
							sites = append(sites, site{"return-nil", st.Pos(), name, func() { v.Results[0] = ast.NewIdent("nil") }})
						}
					}
				case *ast.IfStmt:
					sites = append(sites, site{"negate-if", st.Pos(), name, func() {
						v.Cond = &ast.UnaryExpr{Op: token.NOT, X: &ast.ParenExpr{X: v.Cond}}
					}})
					ast.Inspect(v.Cond, func(n ast.Node) bool {
						if be, ok := n.(*ast.BinaryExpr); ok && (be.Op == token.EQL || be.Op == token.NEQ) {
							sites = append(sites, site{"flip-eq", be.Pos(), name, func() {
								if be.Op == token.EQL {
									be.Op = token.NEQ
								} else {
									be.Op = token.EQL
								}
							}})
						}
						return true
					})
					if v.Else != nil {
						sites = append(sites, site{"drop-else", v.Else.Pos(), name, func() { v.Else = nil }})
					}
					walkBlock(&v.Body.List)
					if eb, ok := v.Else.(*ast.BlockStmt); ok {
						walkBlock(&eb.List)
					} else if ei, ok := v.Else.(*ast.IfStmt); ok {
						tmp := []ast.Stmt{ei}
						walkBlock(&tmp)
					}
				case *ast.ForStmt:
					walkBlock(&v.Body.List)
				case *ast.RangeStmt:
					walkBlock(&v.Body.List)
				case *ast.BlockStmt:
					walkBlock(&v.List)
				case *ast.SwitchStmt:
					for _, c := range v.Body.List {
						if cc, ok := c.(*ast.CaseClause); ok {
							walkBlock(&cc.Body)
						}
					}
				}
				walkStmt(st)
			}
		}
		walkBlock(&fd.Body.List)
	}
	switch os.Args[1] {
	case "list":
		for i, s := range sites {
			fmt.Printf("%d %s %d %s\n", i, s.kind, fset.Position(s.pos).Line, s.fn)
		}
	case "apply":
		idx, _ := strconv.Atoi(os.Args[3])
		if idx < 0 || idx >= len(sites) {
			fmt.Fprintln(os.Stderr, "no such site")
			os.Exit(2)
		}
		sites[idx].do()
		if err := printer.Fprint(os.Stdout, fset, f); err != nil {
			fmt.Fprintln(os.Stderr, err)
			os.Exit(2)
		}
	}
}
