#!/bin/bash
# usage: tools/mutant.sh <patch.diff> <Cxx> [quick|thorough] [runs=N ...]
# Applies the patch to a scratch copy of /repo (outside /repo and /verif), runs the check against it, removes the copy.
# exit code = the check's exit code (1 = caught).
set -uo pipefail
cd "$(dirname "$0")/.."
PATCH="$(readlink -f "${1:?patch}")"; PROP="${2:?property}"; TIER="${3:-quick}"; shift; shift; [ $# -gt 0 ] && shift
SCR="$(mktemp -d /dev/shm/mutrepo-XXXXXX)"
trap 'rm -rf "$SCR" "/verif/.cache/bin/"*"-alt-$(echo "$SCR/repo" | md5sum | cut -c1-8)" /verif/.cache/go.alt.$(echo "$SCR/repo" | md5sum | cut -c1-8).*' EXIT
git -C /repo archive --format=tar HEAD | (mkdir -p "$SCR/repo" && tar -x -C "$SCR/repo")
# include uncommitted hook state? /repo HEAD already has the hooks committed
( cd "$SCR/repo" && git init -q . && git apply --whitespace=nowarn "$PATCH" ) || { echo "mutant.sh: patch does not apply"; exit 2; }
mkdir -p "$SCR/out"
VERIF_REPO="$SCR/repo" VERIF_OUT="$SCR/out" tools/check.sh "$PROP" "$TIER" "$@"
RC=$?
if [ -d "$SCR/out/replays" ] && [ -n "${KEEP_REPLAYS:-}" ]; then mkdir -p "$KEEP_REPLAYS"; cp "$SCR/out/replays/"* "$KEEP_REPLAYS/" 2>/dev/null; fi
exit $RC
