#!/bin/bash
# Reach measurement: which statements of the library the simulated workloads execute at all.
# usage: tools/reach.sh [runs per profile, default 600]
# Builds the simulator with -cover -coverpkg=<library packages>, executes N generated plans of every (profile,
# property) pair in one process each, merges the profiles and writes
#   reach/summary.txt    per-file statement coverage of boltz and ast
#   reach/unreached.txt  functions of the anchored boltz files below 70 % (what no plan has executed)
# A function listed there is outside what the checks can judge, whatever the oracles say.
set -uo pipefail
cd "$(dirname "$0")/.."
. tools/env.sh
N="${1:-600}"
tools/mkbbolt.sh >&2 || exit 2
BIN="$VERIF_CACHE/bin/dsim-cov"
MODFILE=""
if [ "$VERIF_REPO" != "/repo" ] || [ "$VERIF_CACHE" != "/verif/.cache" ]; then
  MF="$VERIF_CACHE/go.cov.mod"
  sed -e "s#=> /repo#=> $VERIF_REPO#" -e "s#=> /verif/.cache/fp/bbolt#=> $VERIF_CACHE/fp/bbolt#" sim/go.mod > "$MF"
  cp sim/go.sum "$VERIF_CACHE/go.cov.sum"
  MODFILE="-modfile=$MF"
fi
( cd sim && "$GO126" test -c -cover -coverpkg=github.com/openziti/storage/boltz,github.com/openziti/storage/ast -tags verif $MODFILE -o "$BIN" ./dsim ) >&2 || exit 2
OUT="$(mktemp -d /dev/shm/dsim-reach-XXXXXX)"; trap 'rm -rf "$OUT"' EXIT
run() { pr=${1%%:*}; p=${1##*:}; DSIM_COVERPROFILE="$OUT/$pr-$p.out" timeout 1800 "$BIN" debug "$pr" "$p" 1 "$N" > "$OUT/$pr-$p.log" 2>&1; }
for g in "crud:C03 crud:C04 crud:C05 crud:C06 crud:C15 crud:C16" "tx:C08 integrity:C09 tx:C07 txenum:C07 snap:C17 conc:C18"; do
  for pp in $g; do run $pp & done; wait
done
python3 - "$OUT" <<'PY'
import glob,sys
blocks={}
for f in glob.glob(sys.argv[1]+'/*.out'):
    for l in open(f):
        if l.startswith('mode:'): continue
        k,c=l.rsplit(' ',1)
        blocks[k]=max(blocks.get(k,0),int(c))
with open(sys.argv[1]+'/merged.prof','w') as o:
    o.write('mode: set\n')
    for k,c in sorted(blocks.items()): o.write('%s %d\n'%(k,1 if c else 0))
PY
mkdir -p reach
( cd sim && "$GO126" tool cover -func="$OUT/merged.prof" ) > "$OUT/func.txt" 2>&1 || { cat "$OUT/func.txt" >&2; exit 2; }
python3 - "$OUT" "$N" <<'PY'
import sys,re,collections
out,n=sys.argv[1],sys.argv[2]
tot=collections.defaultdict(lambda:[0,0])
for l in open(out+'/merged.prof'):
    if l.startswith('mode:'): continue
    m=re.match(r'(.*):\d+\.\d+,\d+\.\d+ (\d+) (\d+)',l)
    f,st,c=m.group(1),int(m.group(2)),int(m.group(3))
    f=f.replace('github.com/openziti/storage/','')
    tot[f][0]+=st
    if c: tot[f][1]+=st
with open('reach/summary.txt','w') as o:
    o.write('# statement coverage of the library under the simulated workloads (%s plans per profile/property pair, all 12 pairs merged)\n'%n)
    a=b=0
    for f in sorted(tot):
        if f.endswith('_test.go') or 'parser' in f or 'lexer' in f: continue
        s,c=tot[f]; a+=s; b+=c
        o.write('%-40s %5d / %5d  %5.1f%%\n'%(f,c,s,100.0*c/max(s,1)))
    o.write('%-40s %5d / %5d  %5.1f%%\n'%('TOTAL',b,a,100.0*b/max(a,1)))
anch=['store_crud.go','indexes.go','db.go','store.go','link_collection.go','link_collection_rc.go','system_entity_constraint.go','tx_context.go','typed_bucket.go','base.go','store_query.go']
with open('reach/unreached.txt','w') as o:
    o.write('# functions of the anchored boltz files with less than 70 % of their statements executed by any plan\n')
    for l in open(out+'/func.txt'):
        p=l.split()
        if len(p)<3 or not p[0].startswith('github.com/openziti/storage/boltz/'): continue
        f=p[0].replace('github.com/openziti/storage/boltz/','')
        if f.split(':')[0] not in anch: continue
        pct=float(p[-1].rstrip('%'))
        if pct<70: o.write('%6.1f%%  %s %s\n'%(pct,f,p[1]))
PY
tail -1 reach/summary.txt
