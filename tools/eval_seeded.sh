#!/bin/bash
# usage: tools/eval_seeded.sh <src dir with patch.diff + demo test + README.md> <seeded id> <Cxx> [check args...]
# 1. confirms in a scratch copy of /repo: patch applies, builds, existing suite passes WITH the patch,
#    the demonstration passes WITHOUT and fails WITH the patch;
# 2. runs the property's check against the patched copy (tools/mutant.sh);
# 3. stores everything under /verif/seeded/<id>/ with meta.json.
set -uo pipefail
cd "$(dirname "$0")/.."
. tools/env.sh
SRC="$(readlink -f "$1")"; ID="$2"; PROP="$3"; shift 3
DST="/verif/seeded/$ID"; mkdir -p "$DST"
cp "$SRC/patch.diff" "$DST/patch.diff"
DEMO="$(ls "$SRC"/*_test.go 2>/dev/null | head -1)"
[ -n "$DEMO" ] && cp "$DEMO" "$DST/"
[ -f "$SRC/README.md" ] && cp "$SRC/README.md" "$DST/README.md"
SCR="$(mktemp -d /dev/shm/seedchk-XXXXXX)"; trap 'rm -rf "$SCR"' EXIT
git -C /repo archive --format=tar HEAD | (mkdir -p "$SCR/repo" && tar -x -C "$SCR/repo")
cd "$SCR/repo"
DEMOPKG="boltz"; if [ -n "$DEMO" ] && head -30 "$DEMO" | grep -q '^package ast'; then DEMOPKG="ast"; fi
demo_run() { # $1 = extra go test flags
  if [ -z "$DEMO" ]; then echo "nodemo"; return; fi
  cp "$DEMO" "$DEMOPKG/zz_demo_test.go"
  if timeout 600 go test -vet=off -count=1 $1 -run 'Demo|demo|Mutant|Seeded' ./$DEMOPKG >"$SCR/demo.log" 2>&1; then echo pass; else echo fail; fi
  rm -f "$DEMOPKG/zz_demo_test.go"
}
RACE=""; if [ "$PROP" = "C18" ] || grep -qi "race" "$SRC/README.md" 2>/dev/null; then RACE="-race"; fi
DEMO_CLEAN="$(demo_run "$RACE")"
git init -q . >/dev/null 2>&1
if ! git apply --whitespace=nowarn "$DST/patch.diff"; then echo "eval: patch does not apply"; exit 2; fi
if go build ./... >"$SCR/build.log" 2>&1 && go build -tags verif ./... >>"$SCR/build.log" 2>&1; then BUILD=ok; else BUILD=fail; fi
if go test -vet=off -count=1 ./... >"$SCR/suite.log" 2>&1; then SUITE=pass; else SUITE=fail; fi
DEMO_MUT="$(demo_run "$RACE")"
if [ "$DEMO_MUT" = "pass" ] && [ -n "$RACE" ]; then for i in 1 2 3 4 5; do DEMO_MUT="$(demo_run "$RACE")"; [ "$DEMO_MUT" = fail ] && break; done; fi
cd /verif
echo "eval $ID: build=$BUILD suite_with_patch=$SUITE demo_without=$DEMO_CLEAN demo_with=$DEMO_MUT"
OUT="$(KEEP_REPLAYS="$DST/replays" tools/mutant.sh "$DST/patch.diff" "$PROP" quick "$@" 2>&1)"; RC=$?
echo "$OUT" | grep -v "^---\|^    ---\|testing.go\|^FAIL\|^PASS" | grep "^VIOLATION\|sig=\|^runs=\|KNOWN" | head -8 | cut -c1-220
CAUGHT=false; [ $RC -eq 1 ] && CAUGHT=true
SIGS="$(echo "$OUT" | grep -o 'sig=[^ ]*' | sort -u | tr '\n' ' ')"
python3 - "$DST" "$ID" "$PROP" "$BUILD" "$SUITE" "$DEMO_CLEAN" "$DEMO_MUT" "$CAUGHT" "$RC" "$SIGS" "$*" <<'PY'
import json,sys,os
dst,id_,prop,build,suite,dc,dm,caught,rc,sigs,args=sys.argv[1:12]
meta_path=os.path.join(dst,'meta.json')
meta=json.load(open(meta_path)) if os.path.exists(meta_path) else {}
meta.update({"id":id_,"breaks_property":prop,"builds":build,"existing_suite_with_change":suite,
 "demonstration_without_change":dc,"demonstration_with_change":dm,
 "check_run":"tools/mutant.sh seeded/%s/patch.diff %s quick %s"%(id_,prop,args),"check_exit":int(rc),"caught":caught=="true","violation_signatures":sigs.split()})
meta.setdefault("needs_to_manifest","see README.md")
json.dump(meta,open(meta_path,'w'),indent=1)
PY
echo "eval $ID: caught=$CAUGHT (exit $RC)"
