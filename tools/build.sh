#!/bin/bash
# Builds the simulator binary from /verif/sim against the CURRENT working tree of $VERIF_REPO (default /repo),
# with the guarded hooks on (-tags verif). usage: tools/build.sh [race]   -> prints the binary path
set -euo pipefail
cd "$(dirname "$0")/.."
. tools/env.sh
mkdir -p "$VERIF_CACHE/bin"
exec 9>"$VERIF_CACHE/build.lock"
flock 9
tools/mkbbolt.sh >&2 || exit 2
OUT="$VERIF_CACHE/bin/dsim"; RACE=""
if [ "${1:-}" = "race" ]; then OUT="$VERIF_CACHE/bin/dsim-race"; RACE="-race"; fi
MODFILE=""
if [ "$VERIF_REPO" != "/repo" ]; then OUT="$OUT-alt-$(echo "$VERIF_REPO" | md5sum | cut -c1-8)"; fi
if [ "$VERIF_REPO" != "/repo" ] || [ "$VERIF_CACHE" != "/verif/.cache" ]; then
  # scratch copy of the repository (mutant runs) or relocated /verif: same module file with other replace targets
  H="$(echo "$VERIF_REPO" | md5sum | cut -c1-8)"
  MF="$VERIF_CACHE/go.alt.$H.mod"
  sed -e "s#=> /repo#=> $VERIF_REPO#" -e "s#=> /verif/.cache/fp/bbolt#=> $VERIF_CACHE/fp/bbolt#" sim/go.mod > "$MF"
  cp sim/go.sum "$VERIF_CACHE/go.alt.$H.sum"
  MODFILE="-modfile=$MF"
fi
( cd sim && "$GO126" test -c $RACE -tags verif $MODFILE -o "$OUT" ./dsim ) >&2 || { echo "build.sh: build failed" >&2; exit 2; }
echo "$OUT"
