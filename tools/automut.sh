#!/bin/bash
# Sensitivity campaign with automatically generated source mutants (tools/automut).
# usage: tools/automut.sh <results.tsv> <per-file sample size> [seed]
# For every sampled mutation site of the anchored boltz files: apply it to a scratch copy of /repo, require that it
# builds and that the EXISTING test suite still passes (otherwise it is not a change the checks are meant for), then
# run the checks mapped to that file (reduced budgets) until one reports a VIOLATION.
set -uo pipefail
cd "$(dirname "$0")/.."
. tools/env.sh
OUT="$(readlink -f "$1")"; N="${2:-20}"; SEED="${3:-1}"
# optional sharding (two campaigns side by side): SHARD=k SHARDS=n WORKERS=w tools/automut.sh ...
SHARD="${SHARD:-0}"; SHARDS="${SHARDS:-1}"; WORKERS="${WORKERS:-16}"; CNT=0
MUT="$VERIF_CACHE/bin/automut"
[ -x "$MUT" ] || ( cd tools/automut && go build -o "$MUT" . ) || exit 2
SCR="$(mktemp -d /dev/shm/automut-XXXXXX)"; trap 'rm -rf "$SCR" "$VERIF_CACHE"/bin/*-alt-$(echo "$SCR/repo" | md5sum | cut -c1-8) "$VERIF_CACHE"/go.alt.$(echo "$SCR/repo" | md5sum | cut -c1-8).*' EXIT
mkdir -p "$SCR/repo" "$SCR/out"
git -C /repo archive --format=tar HEAD | tar -x -C "$SCR/repo"
declare -A CHECKS=(
 [indexes.go]="C03 C04 C09 C07" [store_crud.go]="C07 C03 C06 C08 C15" [link_collection.go]="C05 C09 C06" [link_collection_rc.go]="C05 C06"
 [typed_bucket.go]="C03 C05 C07" [tx_context.go]="C07 C08 C16" [db.go]="C07 C08 C17" [store.go]="C08 C15 C03"
 [system_entity_constraint.go]="C16" [store_query.go]="C15 C18" [query_scanners.go]="C15 C18" )
declare -A RUNS=( [C03]=3000 [C04]=3000 [C05]=3000 [C06]=3000 [C15]=2500 [C16]=3000 [C07]=500 [C08]=2000 [C09]=2500 [C17]=1500 [C18]=1200 )
[ -f "$OUT" ] || printf "file\tindex\tkind\tline\tfunc\tresult\tdetail\n" > "$OUT"
for f in indexes.go store_crud.go link_collection.go link_collection_rc.go typed_bucket.go tx_context.go db.go store.go system_entity_constraint.go store_query.go query_scanners.go; do
  "$MUT" list "/repo/boltz/$f" | python3 -c "
import sys,random
l=[x.strip() for x in sys.stdin if x.strip()]
random.Random('$SEED$f').shuffle(l)
print('\n'.join(l[:$N]))" | while read idx kind line fn; do
    [ -z "$idx" ] && continue
    CNT=$((CNT+1)); [ $((CNT % SHARDS)) -ne "$SHARD" ] && continue
    grep -q "^$f	$idx	" "$OUT" && continue
    cp "/repo/boltz/$f" "$SCR/repo/boltz/$f"
    if ! "$MUT" apply "/repo/boltz/$f" "$idx" > "$SCR/mut.go" 2>/dev/null; then continue; fi
    cp "$SCR/mut.go" "$SCR/repo/boltz/$f"
    if ! ( cd "$SCR/repo" && go build ./... && go build -tags verif ./... ) >/dev/null 2>&1; then
      printf "%s\t%s\t%s\t%s\t%s\tinvalid\tdoes not build\n" "$f" "$idx" "$kind" "$line" "$fn" >> "$OUT"; continue; fi
    if ! ( cd "$SCR/repo" && timeout 180 go test -vet=off -count=1 -timeout 120s ./... ) >/dev/null 2>&1; then
      printf "%s\t%s\t%s\t%s\t%s\tkilled-by-suite\t\n" "$f" "$idx" "$kind" "$line" "$fn" >> "$OUT"; continue; fi
    res="survived"; detail=""
    for c in ${CHECKS[$f]}; do
      o="$(VERIF_REPO="$SCR/repo" VERIF_OUT="$SCR/out" timeout 900 tools/check.sh "$c" quick runs=${RUNS[$c]} workers=$WORKERS 2>&1)"; rc=$?
      if [ $rc -eq 1 ]; then res="killed-by-check"; detail="$c $(echo "$o" | grep -o 'sig=[^ ]*' | head -1)"; break; fi
      if [ $rc -ne 0 ]; then res="check-trouble"; detail="$c exit=$rc $(echo "$o" | grep -m1 -o 'watchdog\|HARNESS-ERROR.*\|worker [0-9]* failed' | cut -c1-60)"; break; fi
    done
    rm -rf "$SCR/out/replays"
    printf "%s\t%s\t%s\t%s\t%s\t%s\t%s\n" "$f" "$idx" "$kind" "$line" "$fn" "$res" "$detail" >> "$OUT"
  done
  cp "/repo/boltz/$f" "$SCR/repo/boltz/$f"
done
echo "automut: done"; cut -f6 "$OUT" | sort | uniq -c
