#!/bin/bash
# Builds the scratch copy of bbolt v1.4.0 used by the simulator:
#   $VERIF_CACHE/fp/bbolt   = module cache copy + gofail failpoints enabled + simseam hook calls inserted.
# Exit 2 on any anchor mismatch / build trouble (never a VIOLATION).
set -euo pipefail
. "$(dirname "$0")/env.sh"
SRC="$(go env GOMODCACHE)/go.etcd.io/bbolt@v1.4.0"
DST="$VERIF_CACHE/fp/bbolt"
STAMP="$DST/.simseam-stamp"
WANT="v3-$(sha256sum "$0" "$(dirname "$0")/patch_bbolt.py" | sha256sum | cut -c1-16)"
if [ -f "$STAMP" ] && [ "$(cat "$STAMP")" = "$WANT" ]; then exit 0; fi
[ -d "$SRC" ] || { echo "mkbbolt: bbolt v1.4.0 not in module cache" >&2; exit 2; }
mkdir -p "$VERIF_CACHE/fp" "$VERIF_CACHE/bin"
rm -rf "$DST"; cp -r "$SRC" "$DST"; chmod -R u+w "$DST"
rm -rf "$DST"/cmd "$DST"/tests "$DST"/scripts "$DST"/.github; find "$DST" -name "*_test.go" -delete
# gofail binary, built offline from the cached module
if [ ! -x "$VERIF_CACHE/bin/gofail" ]; then
  B="$VERIF_CACHE/gofail-build"; rm -rf "$B"; mkdir -p "$B"
  ( cd "$B" && cat > go.mod <<EOM
module gofailbuild
go 1.23
require go.etcd.io/gofail v0.2.0
EOM
    go build -o "$VERIF_CACHE/bin/gofail" go.etcd.io/gofail ) || { echo "mkbbolt: cannot build gofail" >&2; exit 2; }
  rm -rf "$B"
fi
( cd "$DST" && "$VERIF_CACHE/bin/gofail" enable . ) || { echo "mkbbolt: gofail enable failed" >&2; exit 2; }
python3 "$(dirname "$0")/patch_bbolt.py" "$DST" || { echo "mkbbolt: anchor mismatch" >&2; exit 2; }
echo "$WANT" > "$STAMP"
echo "mkbbolt: built $DST"
