#!/bin/bash
# MANIFEST.setup_cmd: offline build of everything the checks need (bbolt scratch copy with failpoints + seam,
# gofail binary, simulator binaries). Checks rebuild incrementally anyway.
set -euo pipefail
cd "$(dirname "$0")/.."
. tools/env.sh
tools/mkbbolt.sh
tools/build.sh >/dev/null
tools/build.sh race >/dev/null
echo "setup: ok"
