#!/usr/bin/env python3
"""Insert simseam hook calls into the scratch copy of bbolt. Every anchor must match exactly once."""
import sys, os, re
root = sys.argv[1]

def patch(fname, edits, add_import=True):
    p = os.path.join(root, fname)
    s = open(p).read()
    for old, new in edits:
        n = s.count(old)
        if n != 1:
            sys.stderr.write("anchor in %s matched %d times: %r\n" % (fname, n, old[:70]))
            sys.exit(2)
        s = s.replace(old, new)
    if add_import:
        m = re.search(r'^import \(\n', s, re.M)
        if not m:
            sys.stderr.write("no import block in %s\n" % fname); sys.exit(2)
        s = s[:m.end()] + '\t"go.etcd.io/bbolt/simseam"\n' + s[m.end():]
    open(p, 'w').write(s)

os.makedirs(os.path.join(root, 'simseam'), exist_ok=True)
open(os.path.join(root, 'simseam', 'simseam.go'), 'w').write('''// Package simseam is the simulator's seam into the scratch copy of bbolt. Nil hook = shipped behaviour.
package simseam

// Hook is called at the instrumented sites. site names: put, delete, createBucket, createBucketIfNotExists,
// deleteBucket, cursorDelete (may return an error that the bbolt call then returns), rw.acquired, tx.commit.begin, tx.committed, rw.released,
// batch.solo (key = db path; return value ignored).
var Hook func(site string, key []byte) error

func Call(site string, key []byte) error {
	if h := Hook; h != nil {
		return h(site, key)
	}
	return nil
}
''')

patch('db.go', [
    ("\t// This enforces only one writer transaction at a time.\n\tdb.rwlock.Lock()\n",
     "\t// This enforces only one writer transaction at a time.\n\tdb.rwlock.Lock()\n\t_ = simseam.Call(\"rw.acquired\", []byte(db.path))\n"),
    ("\t\tdb.rwlock.Unlock()\n\t\treturn nil, berrors.ErrDatabaseNotOpen\n",
     "\t\t_ = simseam.Call(\"rw.released\", []byte(db.path))\n\t\tdb.rwlock.Unlock()\n\t\treturn nil, berrors.ErrDatabaseNotOpen\n"),
    ("\t\tdb.rwlock.Unlock()\n\t\treturn nil, berrors.ErrInvalidMapping\n",
     "\t\t_ = simseam.Call(\"rw.released\", []byte(db.path))\n\t\tdb.rwlock.Unlock()\n\t\treturn nil, berrors.ErrInvalidMapping\n"),
    ("\tif err == trySolo {\n\t\terr = db.Update(fn)\n",
     "\tif err == trySolo {\n\t\t_ = simseam.Call(\"batch.solo\", []byte(db.path))\n\t\terr = db.Update(fn)\n"),
])
patch('tx.go', [
    ("\t} else if !tx.writable {\n\t\treturn berrors.ErrTxNotWritable\n\t}\n\n\t// TODO(benbjohnson): Use vectorized I/O to write out dirty pages.\n",
     "\t} else if !tx.writable {\n\t\treturn berrors.ErrTxNotWritable\n\t}\n\t_ = simseam.Call(\"tx.commit.begin\", []byte(tx.db.path))\n\n\t// TODO(benbjohnson): Use vectorized I/O to write out dirty pages.\n"),
    ("\t// Finalize the transaction.\n\ttx.close()\n",
     "\t// Finalize the transaction.\n\tif tx.writable {\n\t\t_ = simseam.Call(\"tx.committed\", []byte(tx.db.path))\n\t}\n\ttx.close()\n"),
    ("\t\ttx.db.rwtx = nil\n\t\ttx.db.rwlock.Unlock()\n",
     "\t\ttx.db.rwtx = nil\n\t\t_ = simseam.Call(\"rw.released\", []byte(tx.db.path))\n\t\ttx.db.rwlock.Unlock()\n"),
])
def top(sig, site, ret):
    return (sig, sig + "\tif b.Writable() {\n\t\tif serr := simseam.Call(\"%s\", key); serr != nil {\n\t\t\treturn %s\n\t\t}\n\t}\n" % (site, ret))
patch('bucket.go', [
    top("func (b *Bucket) CreateBucket(key []byte) (rb *Bucket, err error) {\n", "createBucket", "nil, serr"),
    top("func (b *Bucket) CreateBucketIfNotExists(key []byte) (rb *Bucket, err error) {\n", "createBucketIfNotExists", "nil, serr"),
    top("func (b *Bucket) DeleteBucket(key []byte) (err error) {\n", "deleteBucket", "serr"),
    top("func (b *Bucket) Put(key []byte, value []byte) (err error) {\n", "put", "serr"),
    top("func (b *Bucket) Delete(key []byte) (err error) {\n", "delete", "serr"),
])
patch('cursor.go', [
    ("\tkey, _, flags := c.keyValue()\n\t// Return an error if current value is a bucket.\n",
     "\tkey, _, flags := c.keyValue()\n\tif serr := simseam.Call(\"cursorDelete\", key); serr != nil {\n\t\treturn serr\n\t}\n\t// Return an error if current value is a bucket.\n"),
])
print("patch_bbolt: ok")
