# sourced by every tool script: offline Go environment
export GOFLAGS=-mod=mod GOPROXY=off GOSUMDB=off GOTOOLCHAIN=local
export CARGO_NET_OFFLINE=true PIP_NO_INDEX=1
export VERIF_ROOT="${VERIF_ROOT:-/verif}"
export VERIF_CACHE="${VERIF_CACHE:-$VERIF_ROOT/.cache}"
export VERIF_REPO="${VERIF_REPO:-/repo}"
export GO126="${GO126:-go1.26.8}"
