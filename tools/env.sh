# sourced by every tool script: offline Go environment
export GOFLAGS=-mod=mod GOPROXY=off GOSUMDB=off GOTOOLCHAIN=local
export CARGO_NET_OFFLINE=true PIP_NO_INDEX=1
# the tree this script lives in (a `vp run` snapshot of /verif is self-contained: own .cache, own evidence)
export VERIF_ROOT="${VERIF_ROOT:-$(cd "$(dirname "${BASH_SOURCE[0]}")/.." && pwd)}"
export VERIF_CACHE="${VERIF_CACHE:-$VERIF_ROOT/.cache}"
export VERIF_REPO="${VERIF_REPO:-/repo}"
export GO126="${GO126:-go1.26.8}"
