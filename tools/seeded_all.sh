#!/bin/bash
# Re-runs every seeded change under /verif/seeded/*/ (and every reverted fix of known_findings.json) against its
# property's quick check and prints one line per change: caught / MISSED. Exit 1 if any is missed.
set -uo pipefail
cd "$(dirname "$0")/.."
MISSED=0
for d in seeded/*/; do
  id="$(basename "$d")"; prop="$(python3 -c "import json;print(json.load(open('$d/meta.json'))['breaks_property'])")"
  out="$(tools/mutant.sh "$d/patch.diff" "$prop" quick "$@" 2>&1)"; rc=$?
  sigs="$(echo "$out" | grep -o 'sig=[^ ]*' | sort -u | head -3 | tr '\n' ' ')"
  if [ $rc -eq 1 ]; then echo "caught  $id ($prop) $sigs"; else echo "MISSED  $id ($prop) exit=$rc"; MISSED=1; fi
done
for c in $(git -C /repo log --format=%h --grep='^fix:'); do
  prop="$(grep -o "property=C[0-9]* $c" known_findings.json | head -1 | cut -d= -f2 | cut -d' ' -f1)"
  [ -z "$prop" ] && continue
  git -C /repo diff $c $c^ > /dev/shm/unfix-$c.diff
  out="$(tools/mutant.sh /dev/shm/unfix-$c.diff "$prop" quick "$@" 2>&1)"; rc=$?
  rm -f /dev/shm/unfix-$c.diff
  sigs="$(echo "$out" | grep -o 'sig=[^ ]*' | sort -u | head -3 | tr '\n' ' ')"
  if [ $rc -eq 1 ]; then echo "caught  reverted-fix $c ($prop) $sigs"; else echo "MISSED  reverted-fix $c ($prop) exit=$rc"; MISSED=1; fi
done
exit $MISSED
