package dsim

// The harness-defined schema: wires every constraint / index / link kind of boltz at least once, following the
// wiring idioms of the repository's own test stores (employee / manager / location) and of its production users.

import (
	"github.com/openziti/foundation/v2/errorz"
	"github.com/openziti/storage/ast"
	"github.com/openziti/storage/boltz"
	"go.etcd.io/bbolt"
	"time"
)

const (
	StDepts   = "depts"
	StPeople  = "people"
	StStaff   = "staff" // plain child store of people (child data under <person>/staff)
	StPX      = "px"    // Extended() child store of people (child data under <person>/px)
	StBadges  = "badges"
	StNotes   = "notes"
	StTickets = "tickets"
	StFolders = "folders" // parent -> folders via AddFkConstraint(nullable, CascadeDelete): a cascade that re-enters its own constraint
	StDesks   = "desks"   // occupant: an fk INDEX whose field symbol is linked to the child store staff while the back-reference set (people.desks) is declared on the parent
	StReviews = "reviews" // reviewer -> staff via AddFkConstraint(nullable, CascadeNone): the TARGET is a child store
	StGroups  = "groups"
	StMemos   = "memos" // topic -> groups via AddFkConstraint(not nullable, CascadeDelete): a cascade target without child stores
)

var AllStores = []string{StDepts, StPeople, StStaff, StPX, StBadges, StNotes, StTickets, StGroups, StMemos, StReviews, StFolders, StDesks}

// ---------- entities ----------

type Dept struct {
	Id   string
	Name string
}

func (e *Dept) GetId() string         { return e.Id }
func (e *Dept) SetId(id string)       { e.Id = id }
func (e *Dept) GetEntityType() string { return StDepts }

type Person struct {
	boltz.BaseExtEntity
	Name   string
	Nick   *string
	Roles  []string
	Dept   string
	Mentor *string
	Groups []string
}

func (e *Person) GetEntityType() string { return StPeople }

type Staff struct {
	Person
	Level int32
	// three more field types, all functions of Level (so that operations need no further arguments): an int64, a
	// float64 and a time; written under the keys salary / rate / hired
	Salary  int64
	Rate    float64
	Hired   time.Time
	BadgeNo string
	// Sponsor: a nullable fk to groups (restrict), declared under the same field name by BOTH child stores
	Sponsor *string
}

type PX struct {
	Person
	Memo    string
	Sponsor *string
}

type Badge struct {
	Id       string
	Owner    string
	IsSystem bool // persisted on create only, enforced by the system-entity constraint like on people
}

func (e *Badge) GetId() string         { return e.Id }
func (e *Badge) SetId(id string)       { e.Id = id }
func (e *Badge) GetEntityType() string { return StBadges }

type Note struct {
	Id    string
	About *string
}

func (e *Note) GetId() string         { return e.Id }
func (e *Note) SetId(id string)       { e.Id = id }
func (e *Note) GetEntityType() string { return StNotes }

type Ticket struct {
	Id       string
	Assignee *string
}

func (e *Ticket) GetId() string         { return e.Id }
func (e *Ticket) SetId(id string)       { e.Id = id }
func (e *Ticket) GetEntityType() string { return StTickets }

type Folder struct {
	Id     string
	Parent *string
}

func (e *Folder) GetId() string         { return e.Id }
func (e *Folder) SetId(id string)       { e.Id = id }
func (e *Folder) GetEntityType() string { return StFolders }

type Desk struct {
	Id       string
	Occupant *string
}

func (e *Desk) GetId() string         { return e.Id }
func (e *Desk) SetId(id string)       { e.Id = id }
func (e *Desk) GetEntityType() string { return StDesks }

type Review struct {
	Id       string
	Reviewer *string
}

func (e *Review) GetId() string         { return e.Id }
func (e *Review) SetId(id string)       { e.Id = id }
func (e *Review) GetEntityType() string { return StReviews }

type Memo struct {
	Id    string
	Topic *string
}

func (e *Memo) GetId() string         { return e.Id }
func (e *Memo) SetId(id string)       { e.Id = id }
func (e *Memo) GetEntityType() string { return StMemos }

type Group struct {
	Id string
}

func (e *Group) GetId() string         { return e.Id }
func (e *Group) SetId(id string)       { e.Id = id }
func (e *Group) GetEntityType() string { return StGroups }

// ---------- strategies ----------

type deptStrategy struct{}

func (deptStrategy) NewEntity() *Dept { return &Dept{} }
func (deptStrategy) FillEntity(e *Dept, b *boltz.TypedBucket) {
	e.Name = b.GetStringWithDefault("name", "")
}
func (deptStrategy) PersistEntity(e *Dept, ctx *boltz.PersistContext) {
	ctx.SetString("name", e.Name)
}

type personStrategy struct{}

func (personStrategy) NewEntity() *Person { return &Person{} }
func (personStrategy) FillEntity(e *Person, b *boltz.TypedBucket) {
	e.LoadBaseValues(b)
	e.Name = b.GetStringWithDefault("name", "")
	e.Nick = b.GetString("nick")
	e.Roles = b.GetStringList("roles")
	e.Dept = b.GetStringWithDefault("dept", "")
	e.Mentor = b.GetString("mentor")
	e.Groups = b.GetStringList("groups")
}
func (personStrategy) PersistEntity(e *Person, ctx *boltz.PersistContext) {
	e.SetBaseValues(ctx)
	ctx.SetString("name", e.Name)
	ctx.SetStringP("nick", e.Nick)
	ctx.SetStringList("roles", e.Roles)
	ctx.SetString("dept", e.Dept)
	ctx.SetStringP("mentor", e.Mentor)
	ctx.SetLinkedIds("groups", append([]string(nil), e.Groups...))
}

type staffStrategy struct{ people *PeopleStore }

func (s *staffStrategy) NewEntity() *Staff { return &Staff{} }
func (s *staffStrategy) FillEntity(e *Staff, b *boltz.TypedBucket) {
	_, err := s.people.LoadEntity(b.Tx(), e.Id, &e.Person)
	b.SetError(err)
	e.Level = b.GetInt32WithDefault("level", 0)
	e.BadgeNo = b.GetStringWithDefault("badgeNo", "")
	e.Salary = b.GetInt64WithDefault("salary", -1)
	if f := b.GetFloat64("rate"); f != nil {
		e.Rate = *f
	} else {
		e.Rate = -1
	}
	e.Hired = b.GetTimeOrDefault("hired", time.Time{})
	e.Sponsor = b.GetString("sponsor")
}
func (s *staffStrategy) PersistEntity(e *Staff, ctx *boltz.PersistContext) {
	s.people.GetEntityStrategy().PersistEntity(&e.Person, ctx.GetParentContext())
	ctx.SetInt32("level", e.Level)
	ctx.SetString("badgeNo", e.BadgeNo)
	salary, rate, hired := staffDerived(e.Level)
	ctx.SetInt64("salary", salary)
	ctx.Bucket.SetFloat64("rate", rate, ctx.FieldChecker)
	ctx.SetTimeP("hired", &hired)
	ctx.SetStringP("sponsor", e.Sponsor)
}

// staffDerived: the values of the staff fields that follow from the level.
func staffDerived(level int32) (int64, float64, time.Time) {
	return int64(level)*1000 + 7, float64(level) + 0.5, time.Unix(946684800+int64(level)*86400, 0).UTC()
}

type pxStrategy struct {
	people    *PeopleStore
	noSponsor bool // schema variant "px declares nothing of its own": the sponsor field does not exist either
}

func (s *pxStrategy) NewEntity() *PX { return &PX{} }
func (s *pxStrategy) FillEntity(e *PX, b *boltz.TypedBucket) {
	_, err := s.people.LoadEntity(b.Tx(), e.Id, &e.Person)
	b.SetError(err)
	e.Memo = b.GetStringWithDefault("memo", "")
	if !s.noSponsor {
		e.Sponsor = b.GetString("sponsor")
	}
}
func (s *pxStrategy) PersistEntity(e *PX, ctx *boltz.PersistContext) {
	s.people.GetEntityStrategy().PersistEntity(&e.Person, ctx.GetParentContext())
	ctx.SetString("memo", e.Memo)
	if !s.noSponsor {
		ctx.SetStringP("sponsor", e.Sponsor)
	}
}

type badgeStrategy struct{}

func (badgeStrategy) NewEntity() *Badge { return &Badge{} }
func (badgeStrategy) FillEntity(e *Badge, b *boltz.TypedBucket) {
	e.Owner = b.GetStringWithDefault("owner", "")
	e.IsSystem = b.GetBoolWithDefault(boltz.FieldIsSystemEntity, false)
}
func (badgeStrategy) PersistEntity(e *Badge, ctx *boltz.PersistContext) {
	ctx.SetString("owner", e.Owner)
	if ctx.IsCreate && e.IsSystem {
		ctx.Bucket.SetBool(boltz.FieldIsSystemEntity, true, nil)
	}
}

type noteStrategy struct{}

func (noteStrategy) NewEntity() *Note { return &Note{} }
func (noteStrategy) FillEntity(e *Note, b *boltz.TypedBucket) {
	e.About = b.GetString("about")
}
func (noteStrategy) PersistEntity(e *Note, ctx *boltz.PersistContext) {
	ctx.SetStringP("about", e.About)
}

type folderStrategy struct{}

func (folderStrategy) NewEntity() *Folder { return &Folder{} }
func (folderStrategy) FillEntity(e *Folder, b *boltz.TypedBucket) {
	e.Parent = b.GetString("parent")
}
func (folderStrategy) PersistEntity(e *Folder, ctx *boltz.PersistContext) {
	ctx.SetStringP("parent", e.Parent)
}

type deskStrategy struct{}

func (deskStrategy) NewEntity() *Desk { return &Desk{} }
func (deskStrategy) FillEntity(e *Desk, b *boltz.TypedBucket) {
	e.Occupant = b.GetString("occupant")
}
func (deskStrategy) PersistEntity(e *Desk, ctx *boltz.PersistContext) {
	ctx.SetStringP("occupant", e.Occupant)
}

type reviewStrategy struct{}

func (reviewStrategy) NewEntity() *Review { return &Review{} }
func (reviewStrategy) FillEntity(e *Review, b *boltz.TypedBucket) {
	e.Reviewer = b.GetString("reviewer")
}
func (reviewStrategy) PersistEntity(e *Review, ctx *boltz.PersistContext) {
	ctx.SetStringP("reviewer", e.Reviewer)
}

type ticketStrategy struct{}

func (ticketStrategy) NewEntity() *Ticket { return &Ticket{} }
func (ticketStrategy) FillEntity(e *Ticket, b *boltz.TypedBucket) {
	e.Assignee = b.GetString("assignee")
}
func (ticketStrategy) PersistEntity(e *Ticket, ctx *boltz.PersistContext) {
	ctx.SetStringP("assignee", e.Assignee)
}

type memoStrategy struct{}

func (memoStrategy) NewEntity() *Memo { return &Memo{} }
func (memoStrategy) FillEntity(e *Memo, b *boltz.TypedBucket) {
	e.Topic = b.GetString("topic")
}
func (memoStrategy) PersistEntity(e *Memo, ctx *boltz.PersistContext) {
	ctx.SetStringP("topic", e.Topic)
}

type groupStrategy struct{}

func (groupStrategy) NewEntity() *Group                           { return &Group{} }
func (groupStrategy) FillEntity(*Group, *boltz.TypedBucket)       {}
func (groupStrategy) PersistEntity(*Group, *boltz.PersistContext) {}

// ---------- stores ----------

type DeptStore struct {
	*boltz.BaseStore[*Dept]
	idxName    boltz.ReadIndex
	symMembers boltz.EntitySetSymbol
}
type PeopleStore struct {
	*boltz.BaseStore[*Person]
	idxName    boltz.ReadIndex
	idxNick    boltz.ReadIndex
	idxRoles   boltz.SetReadIndex
	symMentees boltz.EntitySetSymbol
	symDesks   boltz.EntitySetSymbol
	symBadges  boltz.EntitySetSymbol
	symGroups  boltz.EntitySetSymbol
	symKudos   boltz.EntitySetSymbol
	lcGroups   boltz.LinkCollection
	rcKudos    boltz.RefCountedLinkCollection
}
type StaffStore struct {
	*boltz.BaseStore[*Staff]
	idxBadgeNo boltz.ReadIndex
	symLeading boltz.EntitySetSymbol
	lcLeading  boltz.LinkCollection
}
type PXStore struct {
	*boltz.BaseStore[*PX]
	idxMemo boltz.ReadIndex
}
type BadgeStore struct {
	*boltz.BaseStore[*Badge]
}
type NoteStore struct {
	*boltz.BaseStore[*Note]
}
type TicketStore struct {
	*boltz.BaseStore[*Ticket]
}
type FolderStore struct {
	*boltz.BaseStore[*Folder]
}
type DeskStore struct {
	*boltz.BaseStore[*Desk]
}
type ReviewStore struct {
	*boltz.BaseStore[*Review]
}
type MemoStore struct {
	*boltz.BaseStore[*Memo]
}
type GroupStore struct {
	*boltz.BaseStore[*Group]
	symMembers   boltz.EntitySetSymbol
	symKudosFrom boltz.EntitySetSymbol
	lcMembers    boltz.LinkCollection
	rcKudosFrom  boltz.RefCountedLinkCollection
	symLeads     boltz.EntitySetSymbol
	lcLeads      boltz.LinkCollection
}

type Stores struct {
	Depts   *DeptStore
	People  *PeopleStore
	Staff   *StaffStore
	PX      *PXStore
	Badges  *BadgeStore
	Notes   *NoteStore
	Tickets *TicketStore
	Reviews *ReviewStore
	Folders *FolderStore
	Desks   *DeskStore
	Groups  *GroupStore
	Memos   *MemoStore

	// sharedQ: one parsed query per people view, evaluated by every reader of the run (C18). Explicit skip and limit:
	// without them the scanner writes the paging defaults into the query it is given
	sharedQ map[string]ast.Query
}

const sharedQueryText = `name in ["n1", "n3", "n5"] skip 0 limit 100`

// a second shared query, on the staff store: an int64 symbol compared with a float literal (the evaluation
// promotes the integer through a conversion node of the parsed query)
const sharedQueryText2 = `level > 0.5 skip 0 limit 100`

const rootBucket = "stores"

// SideLeads names, in link operations, the groups side of the second link collection (staff.leading <-> groups.leads).
const SideLeads = "leads"

func notFoundF(entityType string) func(id string) error {
	return func(id string) error { return boltz.NewNotFoundError(entityType, "id", id) }
}

// pxChildStrategy routes an update issued through the parent store to the child store when
// the entity has that child's data, copying the caller's parent fields into the child entity (the idiom production
// users of boltz follow; the repository's ChildStoreUpdateHandler + mapper is the same thing in two pieces).
type pxChildStrategy struct{ store *PXStore }

func (s *pxChildStrategy) HandleUpdate(ctx boltz.MutateContext, entity *Person, checker boltz.FieldChecker) (bool, error) {
	if !s.store.IsEntityPresent(ctx.Tx(), entity.Id) {
		return false, nil
	}
	child, found, err := s.store.FindById(ctx.Tx(), entity.Id)
	if err != nil {
		return true, err
	}
	if !found {
		return false, nil
	}
	child.Person = *entity
	return true, s.store.Update(ctx, child, checker)
}
func (s *pxChildStrategy) HandleDelete(boltz.MutateContext, *Person) error { return nil }
func (s *pxChildStrategy) GetStore() boltz.Store                           { return s.store }

func personParentMapper(entity boltz.Entity) boltz.Entity {
	switch e := entity.(type) {
	case *Staff:
		return &e.Person
	case *PX:
		return &e.Person
	}
	return entity
}

func NewStores(variant int) *Stores {
	s := &Stores{}
	base := []string{rootBucket}
	if variant&32 != 0 {
		base = []string{rootBucket, "base2"} // a base path of two segments
	}
	if variant&4 != 0 {
		// the same path in a slice with spare capacity (as a path built with append has): whoever extends it in place
		// shares the backing array with everybody else who did
		base = append(make([]string, 0, 8), base...)
	}

	s.Depts = &DeptStore{BaseStore: boltz.NewBaseStore(boltz.StoreDefinition[*Dept]{
		EntityType: StDepts, EntityStrategy: deptStrategy{}, BasePath: base, EntityNotFoundF: notFoundF(StDepts)})}
	s.Depts.InitImpl(s.Depts)

	s.People = &PeopleStore{BaseStore: boltz.NewBaseStore(boltz.StoreDefinition[*Person]{
		EntityType: StPeople, EntityStrategy: personStrategy{}, BasePath: base, EntityNotFoundF: notFoundF(StPeople)})}
	s.People.InitImpl(s.People)

	s.Staff = &StaffStore{BaseStore: boltz.NewBaseStore(boltz.StoreDefinition[*Staff]{
		EntityStrategy: &staffStrategy{people: s.People}, BasePath: []string{StStaff}, Parent: s.People,
		ParentMapper: personParentMapper, EntityNotFoundF: notFoundF(StPeople)})}
	s.Staff.InitImpl(s.Staff)

	s.PX = &PXStore{BaseStore: boltz.NewBaseStore(boltz.StoreDefinition[*PX]{
		EntityStrategy: &pxStrategy{people: s.People, noSponsor: pxMode(variant) == 2}, BasePath: []string{StPX}, Parent: s.People,
		ParentMapper: personParentMapper, EntityNotFoundF: notFoundF(StPeople)}).Extended()}
	s.PX.InitImpl(s.PX)

	s.Badges = &BadgeStore{BaseStore: boltz.NewBaseStore(boltz.StoreDefinition[*Badge]{
		EntityType: StBadges, EntityStrategy: badgeStrategy{}, BasePath: base, EntityNotFoundF: notFoundF(StBadges)})}
	s.Badges.InitImpl(s.Badges)
	s.Notes = &NoteStore{BaseStore: boltz.NewBaseStore(boltz.StoreDefinition[*Note]{
		EntityType: StNotes, EntityStrategy: noteStrategy{}, BasePath: base, EntityNotFoundF: notFoundF(StNotes)})}
	s.Notes.InitImpl(s.Notes)
	s.Tickets = &TicketStore{BaseStore: boltz.NewBaseStore(boltz.StoreDefinition[*Ticket]{
		EntityType: StTickets, EntityStrategy: ticketStrategy{}, BasePath: base, EntityNotFoundF: notFoundF(StTickets)})}
	s.Tickets.InitImpl(s.Tickets)
	s.Reviews = &ReviewStore{BaseStore: boltz.NewBaseStore(boltz.StoreDefinition[*Review]{
		EntityType: StReviews, EntityStrategy: reviewStrategy{}, BasePath: base, EntityNotFoundF: notFoundF(StReviews)})}
	s.Reviews.InitImpl(s.Reviews)
	s.Folders = &FolderStore{BaseStore: boltz.NewBaseStore(boltz.StoreDefinition[*Folder]{
		EntityType: StFolders, EntityStrategy: folderStrategy{}, BasePath: base, EntityNotFoundF: notFoundF(StFolders)})}
	s.Folders.InitImpl(s.Folders)
	s.Desks = &DeskStore{BaseStore: boltz.NewBaseStore(boltz.StoreDefinition[*Desk]{
		EntityType: StDesks, EntityStrategy: deskStrategy{}, BasePath: base, EntityNotFoundF: notFoundF(StDesks)})}
	s.Desks.InitImpl(s.Desks)
	s.Groups = &GroupStore{BaseStore: boltz.NewBaseStore(boltz.StoreDefinition[*Group]{
		EntityType: StGroups, EntityStrategy: groupStrategy{}, BasePath: base, EntityNotFoundF: notFoundF(StGroups)})}
	s.Groups.InitImpl(s.Groups)
	s.Memos = &MemoStore{BaseStore: boltz.NewBaseStore(boltz.StoreDefinition[*Memo]{
		EntityType: StMemos, EntityStrategy: memoStrategy{}, BasePath: base, EntityNotFoundF: notFoundF(StMemos)})}
	s.Memos.InitImpl(s.Memos)

	// ---- local symbols / indexes ----
	d := s.Depts
	d.AddIdSymbol("id", ast.NodeTypeString)
	d.idxName = d.AddUniqueIndex(d.AddSymbol("name", ast.NodeTypeString))
	d.symMembers = d.AddFkSetSymbol("members", s.People)

	p := s.People
	p.AddExtEntitySymbols()
	if variant&2 != 0 {
		p.AddConstraint(boltz.NewSystemEntityEnforcementConstraint(p))
	}
	p.idxName = p.AddUniqueIndex(p.AddSymbol("name", ast.NodeTypeString))
	// the symbol's name differs from the key of the field it reads ("alias" over the field "nick"): field checkers
	// talk about keys, queries and index paths about symbol names
	p.idxNick = p.AddNullableUniqueIndex(p.AddSymbolWithKey("alias", ast.NodeTypeString, "nick"))
	p.idxRoles = p.AddSetIndex(p.AddPublicSetSymbol("roles", ast.NodeTypeString))
	// application-supplied symbols: one symbol object per store, shared by every scan
	p.AddEntitySymbol(boltz.NewBoolFuncSymbol(p, "oddId", extOdd))
	p.AddEntitySymbol(boltz.NewStringFuncSymbol(p, "idTail", extTail))
	symDept := p.AddFkSymbol("dept", s.Depts)
	p.AddFkIndex(symDept, d.symMembers) // not nullable; restrict on delete of the dept
	symMentor := p.AddFkSymbol("mentor", p)
	p.symMentees = p.AddFkSetSymbol("mentees", p)
	p.AddNullableFkIndex(symMentor, p.symMentees)
	p.symBadges = p.AddFkSetSymbol("badges", s.Badges)
	p.symGroups = p.AddFkSetSymbol("groups", s.Groups)
	p.symKudos = p.AddFkSetSymbol("kudos", s.Groups)
	if variant&2 == 0 {
		p.AddConstraint(boltz.NewSystemEntityEnforcementConstraint(p))
	}

	st := s.Staff
	p.GrantSymbols(st)
	st.AddSymbol("level", ast.NodeTypeInt64)
	st.idxBadgeNo = st.AddUniqueIndex(st.AddSymbol("badgeNo", ast.NodeTypeString))
	// staff uses the repository's own ChildStoreUpdateHandler (the mapper copies the caller's parent fields into
	// the stored child entity); px uses a hand-written ChildStoreStrategy: both idioms are exercised
	px := s.PX
	if variant&1 != 0 {
		p.RegisterChildStoreStrategy(&pxChildStrategy{store: px})
	}
	p.RegisterChildStoreStrategy(&boltz.ChildStoreUpdateHandler[*Person, *Staff]{
		Store: st,
		Mapper: func(ctx boltz.MutateContext, parent *Person) (*Staff, bool) {
			if !st.IsEntityPresent(ctx.Tx(), parent.Id) {
				return nil, false
			}
			child, found, err := st.FindById(ctx.Tx(), parent.Id)
			if err != nil || !found {
				return nil, false
			}
			child.Person = *parent
			return child, true
		},
	})

	p.GrantSymbols(px)
	// an index of its own on the store that is registered AFTER the plain child store: its entries must go when the
	// entity is deleted through any of the three stores
	switch pxMode(variant) {
	case 0:
		px.idxMemo = px.AddNullableUniqueIndex(px.AddSymbol("memo", ast.NodeTypeString))
	case 1:
		px.idxMemo = px.AddUniqueIndex(px.AddSymbol("memo", ast.NodeTypeString))
	default:
		px.AddSymbol("memo", ast.NodeTypeString) // nothing of its own: no index, no link collection
	}
	if variant&1 == 0 {
		p.RegisterChildStoreStrategy(&pxChildStrategy{store: px})
	}
	// made public only after the child stores were granted the symbols
	// (set symbols are private unless made public; GrantSymbols copied the flags as they were then)
	for _, name := range []string{"groups", "mentees", "badges", "kudos"} {
		p.MakeSymbolPublic(name)
	}

	b := s.Badges
	b.AddIdSymbol("id", ast.NodeTypeString)
	b.AddFkIndexCascadeDelete(b.AddFkSymbol("owner", p), p.symBadges)
	b.AddSymbol(boltz.FieldIsSystemEntity, ast.NodeTypeBool)
	b.AddConstraint(boltz.NewSystemEntityEnforcementConstraint(b)) // a system entity that can be reached by a cascade

	n := s.Notes
	n.AddIdSymbol("id", ast.NodeTypeString)
	n.AddFkConstraint(n.AddFkSymbol("about", p), true, boltz.CascadeDelete)

	t := s.Tickets
	t.AddIdSymbol("id", ast.NodeTypeString)
	t.AddFkConstraint(t.AddFkSymbol("assignee", p), true, boltz.CascadeNone)

	// the field symbol names the child store staff as its linked type, the back-reference set lives on people: the
	// index must keep its entries where the set symbol says (and accepts any person as a target)
	ds := s.Desks
	ds.AddIdSymbol("id", ast.NodeTypeString)
	p.symDesks = p.AddFkSetSymbol("desks", ds)
	ds.AddNullableFkIndex(ds.AddFkSymbol("occupant", st), p.symDesks)

	// a tree: deleting a folder deletes its sub-folders, each of which runs the same constraint again
	fo := s.Folders
	fo.AddIdSymbol("id", ast.NodeTypeString)
	fo.AddFkConstraint(fo.AddFkSymbol("parent", fo), true, boltz.CascadeDelete)

	// the referenced store is the plain CHILD store: the restrict constraint lives among the child store's constraints
	rv := s.Reviews
	rv.AddIdSymbol("id", ast.NodeTypeString)
	rv.AddFkConstraint(rv.AddFkSymbol("reviewer", st), true, boltz.CascadeNone)

	g := s.Groups
	g.AddIdSymbol("id", ast.NodeTypeString)
	g.symMembers = g.AddFkSetSymbol("members", p)
	g.symKudosFrom = g.AddFkSetSymbol("kudosFrom", p)

	mm := s.Memos
	mm.AddIdSymbol("id", ast.NodeTypeString)
	mm.AddFkConstraint(mm.AddFkSymbol("topic", g), false, boltz.CascadeDelete) // not nullable

	// sibling child stores wiring a field of the SAME name to the same target (two constraints that differ in nothing
	// but the store they belong to)
	st.AddFkConstraint(st.AddFkSymbol("sponsor", g), true, boltz.CascadeNone)
	if pxMode(variant) != 2 {
		px.AddFkConstraint(px.AddFkSymbol("sponsor", g), true, boltz.CascadeNone)
	}

	// a link collection one side of which lives in the child store: staff.leading <-> groups.leads
	st.symLeading = st.AddFkSetSymbol("leading", g)
	g.symLeads = g.AddFkSetSymbol("leads", st)

	// ---- linked ----
	p.lcGroups = p.AddLinkCollection(p.symGroups, g.symMembers)
	g.lcMembers = g.AddLinkCollection(g.symMembers, p.symGroups)
	p.rcKudos = p.AddRefCountedLinkCollection(p.symKudos, g.symKudosFrom)
	g.rcKudosFrom = g.AddRefCountedLinkCollection(g.symKudosFrom, p.symKudos)
	st.lcLeading = st.AddLinkCollection(st.symLeading, g.symLeads)
	g.lcLeads = g.AddLinkCollection(g.symLeads, st.symLeading)
	s.sharedQ = map[string]ast.Query{}
	for _, name := range []string{StPeople, StStaff, StPX} {
		q, err := ast.Parse(s.ByName(name), sharedQueryText)
		if err != nil {
			panic("shared query: " + err.Error())
		}
		s.sharedQ[name] = q
	}
	q2, err := ast.Parse(s.Staff, sharedQueryText2)
	if err != nil {
		panic("shared query 2: " + err.Error())
	}
	s.sharedQ["staff/level"] = q2
	return s
}

// ByName returns the untyped store.
func (s *Stores) ByName(name string) boltz.Store {
	switch name {
	case StDepts:
		return s.Depts
	case StPeople:
		return s.People
	case StStaff:
		return s.Staff
	case StPX:
		return s.PX
	case StBadges:
		return s.Badges
	case StNotes:
		return s.Notes
	case StTickets:
		return s.Tickets
	case StReviews:
		return s.Reviews
	case StFolders:
		return s.Folders
	case StDesks:
		return s.Desks
	case StGroups:
		return s.Groups
	case StMemos:
		return s.Memos
	}
	panic("unknown store " + name)
}

// TopLevel lists the stores that own an entities bucket (used by CheckIntegrity / InitializeIndexes fan-out).
func (s *Stores) All() []boltz.Store {
	return []boltz.Store{s.Depts, s.People, s.Staff, s.PX, s.Badges, s.Notes, s.Tickets, s.Groups, s.Memos, s.Reviews, s.Folders, s.Desks}
}

type indexInitializer interface {
	InitializeIndexes(tx *bbolt.Tx, errorHolder errorz.ErrorHolder)
}

// InitIndexes creates the static index buckets of every store.
func (s *Stores) InitIndexes(tx *bbolt.Tx, holder errorz.ErrorHolder) {
	for _, st := range s.All() {
		st.(indexInitializer).InitializeIndexes(tx, holder)
	}
}
