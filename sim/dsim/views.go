package dsim

// Read transactions (C17 / C18): every read inside one Db.View must show the database exactly as of the committed
// state that was current when the transaction began, identified by the nonce every write transaction stores.

import (
	"fmt"
	"sort"
	"strings"

	"github.com/openziti/storage/ast"
	"github.com/openziti/storage/boltz"
	"go.etcd.io/bbolt"
)

const nonceBucket = "nonce"

func readNonce(tx *bbolt.Tx) string {
	b := boltz.Path(tx, nonceBucket)
	if b == nil {
		return ""
	}
	return b.GetStringWithDefault("v", "")
}

func writeNonce(tx *bbolt.Tx, nonce string) error {
	b := boltz.GetOrCreatePath(tx, nonceBucket)
	b.SetString("v", nonce, nil)
	return b.GetError()
}

// evalRead performs one read step against the real stores and returns a canonical rendering of what it saw.
func evalRead(s *Stores, tx *bbolt.Tx, op Op) (string, error) {
	switch op.K {
	case "find":
		return findSnap(s, tx, op.S, op.Id)
	case "idx":
		switch op.S {
		case StDepts:
			return string(s.Depts.idxName.Read(tx, []byte(op.Name))), nil
		case StStaff:
			return string(s.Staff.idxBadgeNo.Read(tx, []byte(op.Name))), nil
		case "nick":
			return string(s.People.idxNick.Read(tx, []byte(op.Name))), nil
		}
		return string(s.People.idxName.Read(tx, []byte(op.Name))), nil
	case "roles":
		var ids []string
		s.People.idxRoles.Read(tx, []byte(op.Name), func(v []byte) { ids = append(ids, string(v)) })
		sort.Strings(ids)
		return strings.Join(ids, ","), nil
	case "links":
		var l []string
		if op.S == StGroups {
			l = s.Groups.lcMembers.GetLinks(tx, op.Id)
		} else {
			l = s.People.lcGroups.GetLinks(tx, op.Id)
		}
		return joinSorted(l), nil
	case "backrefs":
		switch op.S {
		case StDepts:
			return joinSorted(s.Depts.GetRelatedEntitiesIdList(tx, op.Id, "members")), nil
		default:
			return joinSorted(s.People.GetRelatedEntitiesIdList(tx, op.Id, op.Name)), nil
		}
	case "query":
		store := s.ByName(op.S)
		var ids []string
		var cnt int64
		var err error
		if op.N == 5 {
			ids, cnt, err = store.QueryIdsC(tx, s.sharedQ[op.S]) // the same parsed query object in every reader
		} else if op.N == 6 {
			ids, cnt, err = s.Staff.QueryIdsC(tx, s.sharedQ["staff/level"])
		} else {
			ids, cnt, err = store.QueryIds(tx, queryText(op))
		}
		if err != nil {
			return "", err
		}
		if op.N == 2 {
			return fmt.Sprintf("%s#%d", strings.Join(ids, ","), cnt), nil
		}
		return fmt.Sprintf("%s#%d", joinSorted(ids), cnt), nil
	case "iterate":
		store := s.ByName(op.S)
		return joinSorted(cursorIds(store.IterateIds(tx, ast.BoolNodeTrue))), nil
	}
	return "", fmt.Errorf("unknown read %s", op.K)
}

// extOdd / extTail: the application-supplied functions behind the external symbols `oddId` and `idTail` of people.
func extOdd(id string) bool {
	if id == "" {
		return false
	}
	return id[len(id)-1]%2 == 1
}

func extTail(id string) *string {
	if id == "" {
		return nil
	}
	t := id[len(id)-1:]
	return &t
}

// queryText: the pinned query shapes.
func queryText(op Op) string {
	switch op.N {
	case 1:
		return fmt.Sprintf(`name = "%s"`, op.Name)
	case 2:
		return fmt.Sprintf(`anyOf(roles) = "%s" sort by name skip 1 limit 3`, op.Name)
	case 3:
		return fmt.Sprintf(`anyOf(mentees.name) = "%s"`, op.Name)
	case 4:
		return fmt.Sprintf(`dept.name = "%s"`, op.Name)
	case 7:
		return fmt.Sprintf(`oddId = %s`, op.Name) // application-supplied bool symbol (NewBoolFuncSymbol)
	case 8:
		return fmt.Sprintf(`idTail = "%s" and oddId = %v`, op.Name, extOdd("x"+op.Name)) // + NewStringFuncSymbol
	}
	return ""
}

// modelRead computes what the same read must return in model state m.
func modelRead(m *Model, op Op) string {
	peopleIn := func(store string) []string {
		var r []string
		for id, p := range m.People {
			if store == StStaff && !p.HasStaff {
				continue
			}
			r = append(r, id)
		}
		sort.Strings(r)
		return r
	}
	switch op.K {
	case "find":
		return m.snapOf(op.S, op.Id)
	case "idx":
		switch op.S {
		case StDepts:
			for id, n := range m.Depts {
				if n == op.Name {
					return id
				}
			}
			return ""
		case StStaff:
			for id, p := range m.People {
				if p.HasStaff && p.BadgeNo == op.Name {
					return id
				}
			}
			return ""
		case "nick":
			for id, p := range m.People {
				if p.Nick != nil && *p.Nick == op.Name && op.Name != "" {
					return id
				}
			}
			return ""
		}
		for id, p := range m.People {
			if p.Name == op.Name {
				return id
			}
		}
		return ""
	case "roles":
		var ids []string
		for id, p := range m.People {
			if containsStr(p.Roles, op.Name) {
				ids = append(ids, id)
			}
		}
		sort.Strings(ids)
		return strings.Join(ids, ",")
	case "links":
		if op.S == StGroups {
			if !m.Groups[op.Id] {
				return ""
			}
			return strings.Join(m.membersOf(op.Id), ",")
		}
		if _, ok := m.People[op.Id]; !ok {
			return ""
		}
		return strings.Join(m.groupsOf(op.Id), ",")
	case "backrefs":
		var ids []string
		switch {
		case op.S == StDepts:
			for id, p := range m.People {
				if p.Dept == op.Id {
					ids = append(ids, id)
				}
			}
		case op.Name == "mentees":
			if _, ok := m.People[op.Id]; ok {
				for id, p := range m.People {
					if p.Mentor != nil && *p.Mentor == op.Id {
						ids = append(ids, id)
					}
				}
			}
		case op.Name == "badges":
			if _, ok := m.People[op.Id]; ok {
				for id, o := range m.Badges {
					if o == op.Id {
						ids = append(ids, id)
					}
				}
			}
		}
		sort.Strings(ids)
		return strings.Join(ids, ",")
	case "query":
		listed := peopleIn(op.S)
		switch op.N {
		case 1:
			var ids []string
			for _, id := range listed {
				if m.People[id].Name == op.Name {
					ids = append(ids, id)
				}
			}
			return fmt.Sprintf("%s#%d", strings.Join(ids, ","), len(ids))
		case 2:
			var match []*MPerson
			for _, id := range listed {
				if containsStr(m.People[id].Roles, op.Name) {
					match = append(match, m.People[id])
				}
			}
			sort.Slice(match, func(i, j int) bool {
				if match[i].Name != match[j].Name {
					return match[i].Name < match[j].Name
				}
				return match[i].Id < match[j].Id
			})
			var ids []string
			for i, p := range match {
				if i >= 1 && i < 4 {
					ids = append(ids, p.Id)
				}
			}
			return fmt.Sprintf("%s#%d", strings.Join(ids, ","), len(match))
		case 3:
			// people one of whose mentees is called op.Name
			var ids []string
			for _, id := range listed {
				for _, q := range m.People {
					if q.Mentor != nil && *q.Mentor == id && q.Name == op.Name {
						ids = append(ids, id)
						break
					}
				}
			}
			return fmt.Sprintf("%s#%d", strings.Join(ids, ","), len(ids))
		case 4:
			var ids []string
			for _, id := range listed {
				if dn, ok := m.Depts[m.People[id].Dept]; ok && dn == op.Name {
					ids = append(ids, id)
				}
			}
			return fmt.Sprintf("%s#%d", strings.Join(ids, ","), len(ids))
		case 7, 8:
			var ids []string
			for _, id := range listed {
				if (op.N == 7 && extOdd(id) == (op.Name == "true")) || (op.N == 8 && strOr(extTail(id)) == op.Name && id != "") {
					ids = append(ids, id)
				}
			}
			return fmt.Sprintf("%s#%d", strings.Join(ids, ","), len(ids))
		case 5:
			var ids []string
			for _, id := range listed {
				if n := m.People[id].Name; n == "n1" || n == "n3" || n == "n5" {
					ids = append(ids, id)
				}
			}
			return fmt.Sprintf("%s#%d", strings.Join(ids, ","), len(ids))
		case 6:
			var ids []string
			for _, id := range peopleIn(StStaff) {
				if m.People[id].Level >= 1 {
					ids = append(ids, id)
				}
			}
			return fmt.Sprintf("%s#%d", strings.Join(ids, ","), len(ids))
		}
		return fmt.Sprintf("%s#%d", strings.Join(listed, ","), len(listed))
	case "iterate":
		return strings.Join(peopleIn(op.S), ",")
	}
	return "?"
}

type viewRec struct {
	Task   string
	Begin  uint64
	End    uint64
	Nonce  string
	Writes bool
}

// execViewTx runs a read transaction whose steps are separated by yields, so commits (and restores) land between
// any two of them.
func (r *Run) execViewTx(t *Task, idx int, tx *TxPlan) {
	if tx.Early {
		t.Yield("view.begin", NeedNone) // queues inside Db.View if a restore holds or awaits the lock
	} else {
		t.Yield("view.begin", NeedRLock)
	}
	id := fmt.Sprintf("%s.%d", t.Name, idx)
	var viol *Violation
	props := []string{"C18"}
	if r.plan.Profile == "snap" {
		props = []string{"C17", "C18"}
	}
	begin := r.s.NextSeq()
	var first string
	err := r.db.View(func(btx *bbolt.Tx) error {
		if r.s.ReloadHeld() {
			// a read transaction begins on the live database while a restore holds the reload lock
			viol = &Violation{Props: []string{"C17"}, Oracle: "snapshot", Sig: "tx-started-while-restore-holds-lock",
				Detail: id + ": a read transaction began while the restore held the reload lock"}
			return nil
		}
		r.mu.Lock()
		r.openViews++
		exp := r.committed
		expNonce := r.committedNonce
		r.mu.Unlock()
		defer func() {
			r.mu.Lock()
			r.openViews--
			r.mu.Unlock()
		}()
		first = readNonce(btx)
		if first != expNonce {
			viol = &Violation{Props: props, Oracle: "isolation", Sig: "stale-or-future-state", Detail: fmt.Sprintf("%s began after commit %q but reads the state of commit %q", id, expNonce, first)}
			return nil
		}
		spanned := false
		for i, op := range tx.Ops {
			t.Yield("view.step", NeedNone)
			// no harness lock between the wake-up and the library call (race windows)
			got, err := safeRead(r.st, btx, op)
			r.mu.Lock()
			if r.committedNonce != expNonce {
				spanned = true
			}
			r.mu.Unlock()
			if err != nil {
				viol = &Violation{Props: props, Oracle: "isolation", Sig: "read-error:" + op.K, Detail: fmt.Sprintf("%s step %d %s failed: %v", id, i, op, err)}
				return nil
			}
			want := modelRead(exp, op)
			r.bump(&r.res.Trans, "read:"+op.K+"/"+op.S+"/"+map[bool]string{true: "spanned", false: "quiet"}[spanned]+"/")
			if got != want {
				viol = &Violation{Props: props, Oracle: "isolation", Sig: "read-not-from-begin-state:" + op.K,
					Detail: fmt.Sprintf("%s (began at the state of commit %q) step %d %s:\n   read:     %s\n   expected: %s", id, expNonce, i, op, orNone(got), orNone(want))}
				return nil
			}
		}
		if spanned {
			r.probe("reader_spanned_commit")
		}
		if last := readNonce(btx); last != first {
			viol = &Violation{Props: props, Oracle: "isolation", Sig: "nonce-changed-inside-view", Detail: fmt.Sprintf("%s read commit marker %q first and %q last", id, first, last)}
		}
		return nil
	})
	end := r.s.NextSeq()
	if err != nil {
		if r.violate(Violation{Props: props, Oracle: "isolation", Sig: "view-error", Detail: fmt.Sprintf("%s: Db.View failed: %v", id, err)}) {
			panic(abortSig{})
		}
	}
	if viol != nil {
		if r.violate(*viol) {
			panic(abortSig{})
		}
	}
	r.recordHist(histOp{Task: t.Name, Kind: "r", Call: begin, Ret: end, Nonce: first})
	t.Yield("view.end", NeedNone)
}

// genReads produces the read steps of a view transaction.
func (g *gen) genReads(n int) []Op {
	var ops []Op
	if g.cfg.Profile == "conc" && g.r.IntN(4) == 0 {
		// a herd: the byte-identical query on the same store, over and over, by every reader that draws this script
		// (readers that began on different committed states then evaluate the same text at the same moment)
		herd := Op{K: "query", S: StPeople, N: 0}
		if g.r.IntN(2) == 0 {
			herd = Op{K: "query", S: StPeople, N: 7, Name: pick(g.r, []string{"true", "false"})}
		}
		for i := 0; i < n+2; i++ {
			ops = append(ops, herd)
		}
		return ops
	}
	for i := 0; i < n; i++ {
		var op Op
		sel := g.r.IntN(9)
		if g.cfg.Profile == "conc" && g.r.IntN(3) == 0 {
			sel = 6 // queries (each builds its symbols, cursors and scanner anew) are where shared evaluation state shows
		}
		switch sel {
		case 0, 1:
			op = Op{K: "find", S: pick(g.r, AllStores)}
			op.Id = pick(g.r, g.universeOf(op.S))
		case 2:
			op = Op{K: "idx", S: pick(g.r, []string{StPeople, StPeople, StDepts, StStaff, "nick"})}
			switch op.S {
			case StDepts:
				op.Name = pick(g.r, U.DeptNames)
			case StStaff:
				op.Name = pick(g.r, U.BadgeNos)
			case "nick":
				op.Name = pick(g.r, U.Nicks)
			default:
				op.Name = pick(g.r, U.Names)
			}
		case 3:
			op = Op{K: "roles", Name: pick(g.r, U.Roles)}
		case 4:
			op = Op{K: "links", S: pick(g.r, []string{StPeople, StGroups})}
			if op.S == StGroups {
				op.Id = pick(g.r, g.groups())
			} else {
				op.Id = pick(g.r, g.people())
			}
		case 5:
			if g.r.IntN(2) == 0 {
				op = Op{K: "backrefs", S: StDepts, Id: pick(g.r, U.Depts), Name: "members"}
			} else {
				op = Op{K: "backrefs", S: StPeople, Id: pick(g.r, g.people()), Name: pick(g.r, []string{"mentees", "badges"})}
			}
		case 6, 7:
			op = Op{K: "query", S: pick(g.r, []string{StPeople, StPeople, StStaff, StPX}), N: g.r.IntN(3)}
			if g.cfg.Profile == "conc" {
				// plus two composite-symbol shapes the existing suite pins (linked set . field, fk . field): every
				// evaluation builds the symbol chain anew, which is where shared evaluation state would show
				op.N = g.r.IntN(9) // 5, 6: the run's shared pre-parsed queries; 7, 8: application-supplied symbols
			}
			if op.N == 7 || op.N == 8 {
				op.S = StPeople
			}
			switch op.N {
			case 1, 3:
				op.Name = pick(g.r, U.Names)
			case 2:
				op.Name = pick(g.r, U.Roles)
			case 4:
				op.Name = pick(g.r, U.DeptNames)
			case 7:
				op.Name = pick(g.r, []string{"true", "false"})
			case 8:
				id := pick(g.r, U.People[:len(U.People)-nHostilePeople]) // the hostile ids end in characters a query text cannot carry
				op.Name = strOr(extTail(id))
			}
		case 8:
			op = Op{K: "iterate", S: pick(g.r, []string{StPeople, StStaff, StPX})}
		}
		ops = append(ops, op)
	}
	return ops
}

func (g *gen) universeOf(store string) []string {
	switch store {
	case StPeople, StStaff, StPX:
		return g.people()
	case StGroups:
		return g.groups()
	}
	return U.ByStore()[store]
}

// safeRead turns a panic raised by the library on a read path into an error.
func safeRead(s *Stores, tx *bbolt.Tx, op Op) (res string, err error) {
	defer func() {
		if p := recover(); p != nil {
			switch p.(type) {
			case abortSig, injectedPanic:
				panic(p)
			}
			err = fmt.Errorf("panic: %v", p)
		}
	}()
	return evalRead(s, tx, op)
}
