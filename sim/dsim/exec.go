package dsim

// Executes plan operations against the real stores, classifies returned errors, and loads canonical snapshots.

import (
	"errors"
	"fmt"
	"sort"
	"strings"

	"github.com/openziti/foundation/v2/errorz"
	"github.com/openziti/storage/boltz"
	"go.etcd.io/bbolt"
)

func (o Op) checker() boltz.FieldChecker {
	if !o.HasChk {
		return nil
	}
	c := boltz.MapFieldChecker{}
	for _, f := range o.Chk {
		c[f] = struct{}{}
		if f == "level" {
			// the fields that are functions of the level are patched together with it
			c["salary"], c["rate"], c["hired"] = struct{}{}, struct{}{}, struct{}{}
		}
	}
	return c
}

func (o Op) person() Person {
	base := boltz.BaseExtEntity{Id: o.Id, Tags: cloneTags(o.Tags), IsSystem: o.IsSys}
	if o.Mig {
		base.Migrate, base.CreatedAt, base.UpdatedAt = true, migTime, migTime
	}
	return Person{
		BaseExtEntity: base,
		Name:          o.Name, Nick: cloneStrP(o.Nick), Roles: append([]string(nil), o.Roles...), Dept: o.Dept,
		Mentor: cloneStrP(o.Mentor), Groups: append([]string(nil), o.Groups...),
	}
}

type execResult struct {
	err     error
	changed *bool
	count   *int
}

// ExecOp runs op through the public API of the stores inside the caller's transaction.
func ExecOp(s *Stores, ctx boltz.MutateContext, op Op) (res execResult) {
	if op.Sys {
		ctx = ctx.GetSystemContext()
	}
	tx := ctx.Tx()
	switch op.K {
	case "create":
		switch op.S {
		case StDepts:
			res.err = s.Depts.Create(ctx, &Dept{Id: op.Id, Name: op.Name})
		case StPeople:
			p := op.person()
			res.err = s.People.Create(ctx, &p)
		case StStaff:
			res.err = s.Staff.Create(ctx, &Staff{Person: op.person(), Level: op.Level, BadgeNo: op.BadgeNo, Sponsor: cloneStrP(op.Ref)})
		case StPX:
			res.err = s.PX.Create(ctx, &PX{Person: op.person(), Memo: op.Memo, Sponsor: cloneStrP(op.Ref)})
		case StBadges:
			res.err = s.Badges.Create(ctx, &Badge{Id: op.Id, Owner: strOr(op.Ref), IsSystem: op.IsSys})
		case StNotes:
			res.err = s.Notes.Create(ctx, &Note{Id: op.Id, About: cloneStrP(op.Ref)})
		case StTickets:
			res.err = s.Tickets.Create(ctx, &Ticket{Id: op.Id, Assignee: cloneStrP(op.Ref)})
		case StReviews:
			res.err = s.Reviews.Create(ctx, &Review{Id: op.Id, Reviewer: cloneStrP(op.Ref)})
		case StFolders:
			res.err = s.Folders.Create(ctx, &Folder{Id: op.Id, Parent: cloneStrP(op.Ref)})
		case StDesks:
			res.err = s.Desks.Create(ctx, &Desk{Id: op.Id, Occupant: cloneStrP(op.Ref)})
		case StMemos:
			res.err = s.Memos.Create(ctx, &Memo{Id: op.Id, Topic: cloneStrP(op.Ref)})
		case StGroups:
			res.err = s.Groups.Create(ctx, &Group{Id: op.Id})
		default:
			panic("exec create " + op.S)
		}
	case "update":
		chk := op.checker()
		switch op.S {
		case StDepts:
			res.err = s.Depts.Update(ctx, &Dept{Id: op.Id, Name: op.Name}, chk)
		case StPeople:
			p := op.person()
			res.err = s.People.Update(ctx, &p, chk)
		case StStaff:
			res.err = s.Staff.Update(ctx, &Staff{Person: op.person(), Level: op.Level, BadgeNo: op.BadgeNo, Sponsor: cloneStrP(op.Ref)}, chk)
		case StPX:
			res.err = s.PX.Update(ctx, &PX{Person: op.person(), Memo: op.Memo, Sponsor: cloneStrP(op.Ref)}, chk)
		case StBadges:
			res.err = s.Badges.Update(ctx, &Badge{Id: op.Id, Owner: strOr(op.Ref), IsSystem: op.IsSys}, chk)
		case StNotes:
			res.err = s.Notes.Update(ctx, &Note{Id: op.Id, About: cloneStrP(op.Ref)}, chk)
		case StTickets:
			res.err = s.Tickets.Update(ctx, &Ticket{Id: op.Id, Assignee: cloneStrP(op.Ref)}, chk)
		case StReviews:
			res.err = s.Reviews.Update(ctx, &Review{Id: op.Id, Reviewer: cloneStrP(op.Ref)}, chk)
		case StFolders:
			res.err = s.Folders.Update(ctx, &Folder{Id: op.Id, Parent: cloneStrP(op.Ref)}, chk)
		case StDesks:
			res.err = s.Desks.Update(ctx, &Desk{Id: op.Id, Occupant: cloneStrP(op.Ref)}, chk)
		case StMemos:
			res.err = s.Memos.Update(ctx, &Memo{Id: op.Id, Topic: cloneStrP(op.Ref)}, chk)
		case StGroups:
			res.err = s.Groups.Update(ctx, &Group{Id: op.Id}, chk)
		default:
			panic("exec update " + op.S)
		}
	case "delete":
		res.err = s.ByName(op.S).DeleteById(ctx, op.Id)
	case "deleteWhere":
		field := map[string]string{StNotes: "about", StTickets: "assignee", StBadges: "owner", StPeople: "name", StStaff: "name", StPX: "name", StMemos: "topic", StReviews: "reviewer", StFolders: "parent", StDesks: "occupant"}[op.S]
		res.err = s.ByName(op.S).DeleteWhere(ctx, fmt.Sprintf(`%s = "%s"`, field, op.Q))
	case "addLinks", "removeLinks", "setLinks", "addLink", "removeLink":
		var lc boltz.LinkCollection = s.People.lcGroups
		switch op.S {
		case StGroups:
			lc = s.Groups.lcMembers
		case StStaff:
			lc = s.Staff.lcLeading
		case SideLeads:
			lc = s.Groups.lcLeads
		}
		switch op.K {
		case "addLinks":
			res.err = lc.AddLinks(tx, op.Id, op.Keys...)
		case "removeLinks":
			res.err = lc.RemoveLinks(tx, op.Id, op.Keys...)
		case "setLinks":
			res.err = lc.SetLinks(tx, op.Id, append([]string(nil), op.Keys...))
		case "addLink":
			ch, err := lc.AddLink(tx, []byte(op.Id), []byte(op.Keys[0]))
			res.err, res.changed = err, &ch
		case "removeLink":
			ch, err := lc.RemoveLink(tx, []byte(op.Id), []byte(op.Keys[0]))
			res.err, res.changed = err, &ch
		}
	case "incr", "decr", "setCount":
		var rc boltz.RefCountedLinkCollection = s.People.rcKudos
		if op.S == StGroups {
			rc = s.Groups.rcKudosFrom
		}
		switch op.K {
		case "incr":
			c, err := rc.IncrementLinkCount(tx, []byte(op.Id), []byte(op.Keys[0]))
			res.err, res.count = err, &c
		case "decr":
			c, err := rc.DecrementLinkCount(tx, []byte(op.Id), []byte(op.Keys[0]))
			res.err, res.count = err, &c
		case "setCount":
			_, _, err := rc.SetLinkCount(tx, []byte(op.Id), []byte(op.Keys[0]), op.N)
			res.err = err
		}
	case "initIndexes":
		// what an application does at start-up: every store creates its index buckets ahead of the first entity
		holder := &errorz.ErrorHolderImpl{}
		for _, st := range s.All() {
			st.(interface {
				InitializeIndexes(*bbolt.Tx, errorz.ErrorHolder)
			}).InitializeIndexes(tx, holder)
		}
		res.err = holder.GetError()
	default:
		panic("exec: unknown op kind " + op.K)
	}
	return res
}

// classify maps an error to the classes the model talks about.
func classify(err error) string {
	if err == nil {
		return ""
	}
	var dup *boltz.UniqueIndexDuplicateError
	if errors.As(err, &dup) {
		return EcDup
	}
	var nf *boltz.RecordNotFoundError
	if errors.As(err, &nf) {
		return EcNotFound
	}
	var re *boltz.ReferenceExistsError
	if errors.As(err, &re) {
		return EcRefExists
	}
	return "other"
}

func classAccepted(actual string, acceptable []string) bool {
	for _, c := range acceptable {
		if c == EcAny || c == actual {
			return true
		}
	}
	return false
}

// ---------- loading canonical snapshots from the real stores ----------

func snapPersonReal(p *Person, view string, level int32, badgeNo, memo string, staff ...*Staff) string {
	return snapPersonRealS(p, view, level, badgeNo, memo, nil, staff...)
}

func snapPersonRealS(p *Person, view string, level int32, badgeNo, memo string, pxSponsor *string, staff ...*Staff) string {
	roles := append([]string{}, p.Roles...)
	sort.Strings(roles)
	groups := append([]string{}, p.Groups...)
	sort.Strings(groups)
	tags := p.Tags
	if tags == nil {
		tags = map[string]any{}
	}
	s := PersonSnap{Id: p.Id, Name: p.Name, Nick: p.Nick, Roles: roles, Dept: p.Dept, Mentor: p.Mentor, Tags: tags,
		Sys: p.IsSystem, CreatedAt: p.CreatedAt.UnixNano(), UpdatedAt: p.UpdatedAt.UnixNano(), Groups: groups, Kind: view}
	switch view {
	case StStaff:
		s.Level, s.BadgeNo = level, badgeNo
		if len(staff) == 1 {
			s.Salary, s.Rate, s.Hired = staff[0].Salary, staff[0].Rate, staff[0].Hired.UnixNano()
			s.Sponsor = staff[0].Sponsor
		}
	case StPX:
		s.Memo = memo
		s.Sponsor = pxSponsor
	}
	return jsonOf(s)
}

// snapEntity canonicalises an entity handed to a listener or returned by FindById.
func snapEntity(store string, e boltz.Entity) string {
	switch v := e.(type) {
	case *Dept:
		if v == nil {
			return "<nil>"
		}
		return simpleSnap(StDepts, v.Id, v.Name, nil)
	case *Person:
		if v == nil {
			return "<nil>"
		}
		return snapPersonReal(v, StPeople, 0, "", "")
	case *Staff:
		if v == nil {
			return "<nil>"
		}
		return snapPersonReal(&v.Person, StStaff, v.Level, v.BadgeNo, "", v)
	case *PX:
		if v == nil {
			return "<nil>"
		}
		return snapPersonRealS(&v.Person, StPX, 0, "", v.Memo, v.Sponsor)
	case *Badge:
		if v == nil {
			return "<nil>"
		}
		o := v.Owner
		return simpleSnap(StBadges, v.Id, sysMark(v.IsSystem), &o)
	case *Note:
		if v == nil {
			return "<nil>"
		}
		return simpleSnap(StNotes, v.Id, "", v.About)
	case *Ticket:
		if v == nil {
			return "<nil>"
		}
		return simpleSnap(StTickets, v.Id, "", v.Assignee)
	case *Review:
		if v == nil {
			return "<nil>"
		}
		return simpleSnap(StReviews, v.Id, "", v.Reviewer)
	case *Folder:
		if v == nil {
			return "<nil>"
		}
		return simpleSnap(StFolders, v.Id, "", v.Parent)
	case *Desk:
		if v == nil {
			return "<nil>"
		}
		return simpleSnap(StDesks, v.Id, "", v.Occupant)
	case *Memo:
		if v == nil {
			return "<nil>"
		}
		return simpleSnap(StMemos, v.Id, "", v.Topic)
	case *Group:
		if v == nil {
			return "<nil>"
		}
		return simpleSnap(StGroups, v.Id, "", nil)
	case nil:
		return "<nil>"
	}
	return fmt.Sprintf("<unknown %T>", e)
}

// findSnap loads (store,id) through the store's FindById; "" if not found.
func findSnap(s *Stores, tx *bbolt.Tx, store, id string) (string, error) {
	switch store {
	case StDepts:
		e, found, err := s.Depts.FindById(tx, id)
		if err != nil || !found {
			return "", err
		}
		return snapEntity(store, e), nil
	case StPeople:
		e, found, err := s.People.FindById(tx, id)
		if err != nil || !found {
			return "", err
		}
		return snapEntity(store, e), nil
	case StStaff:
		e, found, err := s.Staff.FindById(tx, id)
		if err != nil || !found {
			return "", err
		}
		return snapEntity(store, e), nil
	case StPX:
		e, found, err := s.PX.FindById(tx, id)
		if err != nil || !found {
			return "", err
		}
		return snapEntity(store, e), nil
	case StBadges:
		e, found, err := s.Badges.FindById(tx, id)
		if err != nil || !found {
			return "", err
		}
		return snapEntity(store, e), nil
	case StNotes:
		e, found, err := s.Notes.FindById(tx, id)
		if err != nil || !found {
			return "", err
		}
		return snapEntity(store, e), nil
	case StTickets:
		e, found, err := s.Tickets.FindById(tx, id)
		if err != nil || !found {
			return "", err
		}
		return snapEntity(store, e), nil
	case StReviews:
		e, found, err := s.Reviews.FindById(tx, id)
		if err != nil || !found {
			return "", err
		}
		return snapEntity(store, e), nil
	case StFolders:
		e, found, err := s.Folders.FindById(tx, id)
		if err != nil || !found {
			return "", err
		}
		return snapEntity(store, e), nil
	case StDesks:
		e, found, err := s.Desks.FindById(tx, id)
		if err != nil || !found {
			return "", err
		}
		return snapEntity(store, e), nil
	case StMemos:
		e, found, err := s.Memos.FindById(tx, id)
		if err != nil || !found {
			return "", err
		}
		return snapEntity(store, e), nil
	case StGroups:
		e, found, err := s.Groups.FindById(tx, id)
		if err != nil || !found {
			return "", err
		}
		return snapEntity(store, e), nil
	}
	panic("findSnap " + store)
}

func storeOfEntity(e boltz.Entity) string {
	switch e.(type) {
	case *Dept:
		return StDepts
	case *Person:
		return StPeople
	case *Staff:
		return StStaff
	case *PX:
		return StPX
	case *Badge:
		return StBadges
	case *Note:
		return StNotes
	case *Ticket:
		return StTickets
	case *Review:
		return StReviews
	case *Folder:
		return StFolders
	case *Desk:
		return StDesks
	case *Group:
		return StGroups
	case *Memo:
		return StMemos
	}
	return "?"
}

func joinSorted(in []string) string {
	c := append([]string(nil), in...)
	sort.Strings(c)
	return strings.Join(c, ",")
}
