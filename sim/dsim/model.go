package dsim

// Executable reference model: plain maps, and for every operation the outcome the properties prescribe.
// The model never looks at the database. It is evaluated on a working copy that becomes the committed state
// when (and only when) the surrounding bbolt transaction commits.

import (
	"encoding/json"
	"sort"
	"strings"
	"time"
)

// ---------- operations ----------

type Op struct {
	K  string `json:"k"`            // create update delete deleteWhere addLinks removeLinks setLinks addLink removeLink incr decr setCount preCommit commitAction
	S  string `json:"s,omitempty"`  // store
	Id string `json:"id,omitempty"` // entity id (for link ops: the id on side S)

	Name   string         `json:"name,omitempty"`
	Nick   *string        `json:"nick,omitempty"`
	Roles  []string       `json:"roles,omitempty"`
	Dept   string         `json:"dept,omitempty"`
	Mentor *string        `json:"mentor,omitempty"`
	Tags   map[string]any `json:"tags,omitempty"`
	IsSys  bool           `json:"isSys,omitempty"` // entity's system flag as handed to the store
	Mig    bool           `json:"mig,omitempty"`   // the entity value carries Migrate=true and the timestamps of its source (migTime)
	Groups []string       `json:"groups,omitempty"`

	Level   int32  `json:"level,omitempty"`
	BadgeNo string `json:"badgeNo,omitempty"`
	Memo    string `json:"memo,omitempty"`

	Ref *string `json:"ref,omitempty"` // owner / about / assignee

	Chk    []string `json:"chk,omitempty"` // field checker (only if HasChk)
	HasChk bool     `json:"hasChk,omitempty"`
	Sys    bool     `json:"sys,omitempty"` // issue through ctx.GetSystemContext()

	Keys []string `json:"keys,omitempty"` // link targets (ids on the other side)
	N    int      `json:"n,omitempty"`    // count for setCount
	Q    string   `json:"q,omitempty"`    // deleteWhere: field value (query is <fkfield> = "<Q>")

	Fail bool `json:"fail,omitempty"` // preCommit: the action returns an error

	TxCtx  bool `json:"txCtx,omitempty"`  // (with Nested / commitAction) through a context made by NewTxMutateContext over the running transaction
	Nested bool `json:"nested,omitempty"` // issued inside a nested Db.Update(ctx, ...) on the context already bound to the transaction
}

func (o Op) String() string {
	b, _ := json.Marshal(o)
	return string(b)
}

func (o Op) updates(field string) bool {
	if !o.HasChk {
		return true
	}
	for _, f := range o.Chk {
		if f == field {
			return true
		}
	}
	return false
}

// ---------- error classes ----------

const (
	EcDup       = "dup"       // UniqueIndexDuplicateError
	EcNotFound  = "notfound"  // RecordNotFoundError
	EcRefExists = "refexists" // ReferenceExistsError
	EcAny       = "any"       // some error; the property does not name its type
)

// ---------- model state ----------

type MPerson struct {
	Id        string
	Name      string
	Nick      *string
	Roles     []string // sorted, unique
	Dept      string
	Mentor    *string
	Tags      map[string]any
	Sys       bool
	CreatedAt int64
	UpdatedAt int64
	HasStaff  bool
	Level     int32
	BadgeNo   string
	HasPX     bool
	Memo      string
	Sponsor   *string // child-store field (staff or px): a group
}

type pair struct{ P, G string }

type Model struct {
	Depts    map[string]string // id -> name
	People   map[string]*MPerson
	Badges   map[string]string  // id -> owner
	BadgeSys map[string]bool    // id -> system flag (fixed at creation)
	Notes    map[string]*string // id -> about
	Tickets  map[string]*string // id -> assignee
	Reviews  map[string]*string // id -> reviewer (a person with staff data)
	Folders  map[string]*string // id -> parent folder
	Desks    map[string]*string // id -> occupant (any person)
	Leads    map[pair]bool      // staff.leading <-> groups.leads (P must have staff data)
	// PxMode: how the extended child store indexes its own field (a schema variant): 0 nullable unique index,
	// 1 unique index that refuses the empty value, 2 no index (the child store then declares nothing of its own)
	PxMode int
	Memos  map[string]*string // id -> topic (a group)
	Groups map[string]bool
	Links  map[pair]bool
	Kudos  map[pair]int
}

func NewModel() *Model {
	return &Model{Depts: map[string]string{}, People: map[string]*MPerson{}, Badges: map[string]string{}, BadgeSys: map[string]bool{},
		Notes: map[string]*string{}, Tickets: map[string]*string{}, Reviews: map[string]*string{}, Folders: map[string]*string{}, Desks: map[string]*string{}, Leads: map[pair]bool{}, Memos: map[string]*string{}, Groups: map[string]bool{},
		Links: map[pair]bool{}, Kudos: map[pair]int{}}
}

func cloneStrP(s *string) *string {
	if s == nil {
		return nil
	}
	v := *s
	return &v
}

func cloneTags(t map[string]any) map[string]any {
	r := map[string]any{}
	for k, v := range t {
		r[k] = v
	}
	return r
}

func (m *Model) Clone() *Model {
	r := NewModel()
	r.PxMode = m.PxMode
	for k, v := range m.Depts {
		r.Depts[k] = v
	}
	for k, v := range m.People {
		c := *v
		c.Nick = cloneStrP(v.Nick)
		c.Mentor = cloneStrP(v.Mentor)
		c.Roles = append([]string(nil), v.Roles...)
		c.Tags = cloneTags(v.Tags)
		r.People[k] = &c
	}
	for k, v := range m.Badges {
		r.Badges[k] = v
	}
	for k, v := range m.BadgeSys {
		r.BadgeSys[k] = v
	}
	for k, v := range m.Notes {
		r.Notes[k] = cloneStrP(v)
	}
	for k, v := range m.Tickets {
		r.Tickets[k] = cloneStrP(v)
	}
	for k, v := range m.Reviews {
		r.Reviews[k] = cloneStrP(v)
	}
	for k, v := range m.Folders {
		r.Folders[k] = cloneStrP(v)
	}
	for k, v := range m.Desks {
		r.Desks[k] = cloneStrP(v)
	}
	for k, v := range m.Leads {
		r.Leads[k] = v
	}
	for k, v := range m.Memos {
		r.Memos[k] = cloneStrP(v)
	}
	for k := range m.Groups {
		r.Groups[k] = true
	}
	for k := range m.Links {
		r.Links[k] = true
	}
	for k, v := range m.Kudos {
		r.Kudos[k] = v
	}
	return r
}

func sortedUnique(in []string) []string {
	set := map[string]bool{}
	for _, s := range in {
		set[s] = true
	}
	out := make([]string, 0, len(set))
	for s := range set {
		out = append(out, s)
	}
	sort.Strings(out)
	return out
}

func (m *Model) groupsOf(p string) []string {
	var r []string
	for k := range m.Links {
		if k.P == p {
			r = append(r, k.G)
		}
	}
	sort.Strings(r)
	return r
}

func (m *Model) membersOf(g string) []string {
	var r []string
	for k := range m.Links {
		if k.G == g {
			r = append(r, k.P)
		}
	}
	sort.Strings(r)
	return r
}

// ---------- canonical snapshots (what a listener / FindById must show) ----------

type PersonSnap struct {
	Id        string         `json:"id"`
	Name      string         `json:"name"`
	Nick      *string        `json:"nick"`
	Roles     []string       `json:"roles"`
	Dept      string         `json:"dept"`
	Mentor    *string        `json:"mentor"`
	Tags      map[string]any `json:"tags"`
	Sys       bool           `json:"sys"`
	CreatedAt int64          `json:"createdAt"`
	UpdatedAt int64          `json:"updatedAt"`
	Groups    []string       `json:"groups"`
	Kind      string         `json:"kind"` // people | staff | px : the store view the snapshot was taken through
	Level     int32          `json:"level,omitempty"`
	BadgeNo   string         `json:"badgeNo,omitempty"`
	Memo      string         `json:"memo,omitempty"`
	Salary    int64          `json:"salary,omitempty"`
	Rate      float64        `json:"rate,omitempty"`
	Hired     int64          `json:"hired,omitempty"`
	Sponsor   *string        `json:"sponsor,omitempty"`
}

func jsonOf(v any) string {
	b, err := json.Marshal(v)
	if err != nil {
		panic(err)
	}
	return string(b)
}

func (m *Model) personSnap(p *MPerson, view string) string {
	s := PersonSnap{Id: p.Id, Name: p.Name, Nick: p.Nick, Roles: append([]string{}, p.Roles...), Dept: p.Dept, Mentor: p.Mentor,
		Tags: cloneTags(p.Tags), Sys: p.Sys, CreatedAt: p.CreatedAt, UpdatedAt: p.UpdatedAt, Groups: append([]string{}, m.groupsOf(p.Id)...), Kind: view}
	switch view {
	case StStaff:
		s.Level, s.BadgeNo = p.Level, p.BadgeNo
		salary, rate, hired := staffDerived(p.Level)
		s.Salary, s.Rate, s.Hired = salary, rate, hired.UnixNano()
		s.Sponsor = p.Sponsor
	case StPX:
		s.Memo = p.Memo
		if p.HasPX {
			s.Sponsor = p.Sponsor
		}
	}
	return jsonOf(s)
}

func sysMark(sys bool) string {
	if sys {
		return "system"
	}
	return ""
}

func simpleSnap(store, id string, name string, ref *string) string {
	return jsonOf(map[string]any{"store": store, "id": id, "name": name, "ref": ref})
}

// snapOf returns the canonical snapshot of entity (store,id) in the model, "" if absent in that store view.
func (m *Model) snapOf(store, id string) string {
	switch store {
	case StDepts:
		if n, ok := m.Depts[id]; ok {
			return simpleSnap(store, id, n, nil)
		}
	case StPeople:
		if p, ok := m.People[id]; ok {
			return m.personSnap(p, StPeople)
		}
	case StStaff:
		if p, ok := m.People[id]; ok && p.HasStaff {
			return m.personSnap(p, StStaff)
		}
	case StPX:
		if p, ok := m.People[id]; ok { // extended store: every parent entity is visible through it
			return m.personSnap(p, StPX)
		}
	case StBadges:
		if o, ok := m.Badges[id]; ok {
			return simpleSnap(store, id, sysMark(m.BadgeSys[id]), &o)
		}
	case StNotes:
		if a, ok := m.Notes[id]; ok {
			return simpleSnap(store, id, "", a)
		}
	case StTickets:
		if a, ok := m.Tickets[id]; ok {
			return simpleSnap(store, id, "", a)
		}
	case StReviews:
		if a, ok := m.Reviews[id]; ok {
			return simpleSnap(store, id, "", a)
		}
	case StFolders:
		if a, ok := m.Folders[id]; ok {
			return simpleSnap(store, id, "", a)
		}
	case StDesks:
		if a, ok := m.Desks[id]; ok {
			return simpleSnap(store, id, "", a)
		}
	case StMemos:
		if a, ok := m.Memos[id]; ok {
			return simpleSnap(store, id, "", a)
		}
	case StGroups:
		if m.Groups[id] {
			return simpleSnap(store, id, "", nil)
		}
	}
	return ""
}

// ---------- outcome ----------

const (
	EvCreate = "C"
	EvUpdate = "U"
	EvDelete = "D"
)

type Ev struct {
	Store string `json:"store"`
	Type  string `json:"type"`
	Id    string `json:"id"`
	Snap  string `json:"snap"`
	// Optional is set where the property is silent about whether the event is due (extended store entities
	// without extension data): "at most once" is asserted instead of "exactly once".
	Optional bool `json:"optional,omitempty"`
}

type IdRef struct{ Store, Id string }

// childKey marks a deleted person that had child-store data ("deleting through either store removes both parts").
func childKey(id string) IdRef { return IdRef{"child:" + StPeople, id} }

type Outcome struct {
	OK      bool
	Classes []string // acceptable error classes when !OK
	Why     string   // which rule rejected (diagnostics + attribution)
	Skipped bool     // op's acceptance is not specified by any property: not executed
	Events  []Ev
	Deleted []IdRef // entities removed by this op (incl. cascades)
	// return values some ops have
	Changed *bool
	Count   *int
}

func reject(why string, classes ...string) Outcome {
	return Outcome{Classes: classes, Why: why}
}

// acc accumulates every rule an operation violates; any of the corresponding error classes is acceptable.
type acc struct {
	whys    []string
	classes []string
}

func (a *acc) add(why string, classes ...string) {
	a.whys = append(a.whys, why)
	for _, c := range classes {
		found := false
		for _, e := range a.classes {
			if e == c {
				found = true
			}
		}
		if !found {
			a.classes = append(a.classes, c)
		}
	}
}

func (a *acc) bad() bool { return len(a.whys) > 0 }

func (a *acc) out() Outcome {
	return Outcome{Classes: a.classes, Why: strings.Join(a.whys, "+")}
}

// ---------- apply ----------

func ptrEq(a, b *string) bool {
	if a == nil || b == nil {
		return a == b
	}
	return *a == *b
}

func strOr(p *string) string {
	if p == nil {
		return ""
	}
	return *p
}

// Apply evaluates op against the model at fake-clock instant now (unix nanos), mutating the model iff the op
// must succeed. sysCtx says whether the mutate context is a system context.
func (m *Model) Apply(op Op, now int64) Outcome {
	switch op.K {
	case "create":
		return m.applyCreate(op, now)
	case "update":
		return m.applyUpdate(op, now)
	case "delete":
		return m.applyDelete(op)
	case "deleteWhere":
		return m.applyDeleteWhere(op)
	case "addLinks", "removeLinks", "setLinks", "addLink", "removeLink":
		return m.applyLink(op)
	case "incr", "decr", "setCount":
		return m.applyRc(op)
	case "preCommit", "commitAction", "listen", "initIndexes", "updateCtx":
		return Outcome{OK: true}
	}
	panic("model: unknown op kind " + op.K)
}

// person-field validation for create.
func (m *Model) checkPersonFields(a *acc, id string, name string, nick *string, roles []string, dept string, mentor *string, groups []string) {
	if name == "" {
		a.add("name-empty", EcAny)
	} else {
		for oid, o := range m.People {
			if oid != id && o.Name == name {
				a.add("name-dup", EcDup)
			}
		}
	}
	if nick != nil && *nick != "" {
		for oid, o := range m.People {
			if oid != id && o.Nick != nil && *o.Nick == *nick {
				a.add("nick-dup", EcDup)
			}
		}
	}
	for _, r := range roles {
		if r == "" {
			a.add("role-empty", EcAny)
			break
		}
	}
	if dept == "" {
		a.add("dept-empty", EcAny)
	} else if _, ok := m.Depts[dept]; !ok {
		a.add("dept-missing", EcNotFound)
	}
	if mentor != nil && *mentor != "" && *mentor != id {
		if _, ok := m.People[*mentor]; !ok {
			a.add("mentor-missing", EcNotFound)
		}
	}
	for _, g := range groups {
		if !m.Groups[g] {
			a.add("group-missing", EcNotFound, EcAny)
			break
		}
	}
}

func (m *Model) applyCreate(op Op, now int64) Outcome {
	id := op.Id
	if id == "" {
		return reject("blank-id", EcAny)
	}
	switch op.S {
	case StDepts:
		if _, ok := m.Depts[id]; ok {
			return reject("exists", EcAny)
		}
		if op.Name == "" {
			return reject("name-empty", EcAny)
		}
		for _, n := range m.Depts {
			if n == op.Name {
				return reject("name-dup", EcDup)
			}
		}
		m.Depts[id] = op.Name
		return Outcome{OK: true, Events: []Ev{{StDepts, EvCreate, id, m.snapOf(StDepts, id), false}}}
	case StPeople, StStaff, StPX:
		if p, ok := m.People[id]; ok {
			if op.S == StPeople || (op.S == StStaff && p.HasStaff) || (op.S == StPX && p.HasPX) {
				return reject("exists", EcAny)
			}
			// creating a child over an id that exists without that child's data: no property says whether
			// this is to be accepted; not executed (DESIGN section 7.6) - except where C16 does say it: a system
			// entity cannot be (re-)created or changed from an ordinary context
			if p.Sys && !op.Sys {
				return reject("sys-create-over-existing", EcAny)
			}
			return Outcome{Skipped: true, Why: "child-create-over-existing-parent"}
		}
		var a acc
		m.checkPersonFields(&a, id, op.Name, op.Nick, op.Roles, op.Dept, op.Mentor, op.Groups)
		if tagsNested(op.Tags) {
			a.add("tags-nested", EcAny) // the tags map takes scalar values only
		}
		if op.IsSys && !op.Sys {
			a.add("sys-create", EcAny)
		}
		if op.S == StStaff {
			if op.BadgeNo == "" {
				a.add("badgeNo-empty", EcAny)
			} else {
				for _, o := range m.People {
					if o.HasStaff && o.BadgeNo == op.BadgeNo {
						a.add("badgeNo-dup", EcDup)
					}
				}
			}
		}
		if op.S == StPX && op.Memo != "" && m.PxMode != 2 {
			for _, o := range m.People {
				if o.HasPX && o.Memo == op.Memo {
					a.add("memo-dup", EcDup)
				}
			}
		}
		if op.S == StPX && op.Memo == "" && m.PxMode == 1 {
			a.add("memo-empty", EcAny)
		}
		if (op.S == StStaff || (op.S == StPX && m.PxMode != 2)) && strOr(op.Ref) != "" && !m.Groups[*op.Ref] {
			a.add("sponsor-missing", EcNotFound)
		}
		if a.bad() {
			return a.out()
		}
		p := &MPerson{Id: id, Name: op.Name, Nick: cloneStrP(op.Nick), Roles: sortedUnique(op.Roles), Dept: op.Dept,
			Mentor: cloneStrP(op.Mentor), Tags: cloneTags(op.Tags), Sys: op.IsSys, CreatedAt: now, UpdatedAt: now}
		if op.Mig {
			// a migrated entity is created with the timestamps it brings along (an update ignores them)
			p.CreatedAt, p.UpdatedAt = migTime.UnixNano(), migTime.UnixNano()
		}
		if op.S == StStaff {
			p.HasStaff, p.Level, p.BadgeNo = true, op.Level, op.BadgeNo
			p.Sponsor = cloneStrP(op.Ref)
		}
		if op.S == StPX {
			p.HasPX, p.Memo = true, op.Memo
			if m.PxMode != 2 {
				p.Sponsor = cloneStrP(op.Ref)
			}
		}
		m.People[id] = p
		for _, g := range op.Groups {
			m.Links[pair{id, g}] = true
		}
		out := Outcome{OK: true}
		if op.S != StPeople {
			out.Events = append(out.Events, Ev{op.S, EvCreate, id, m.snapOf(op.S, id), false})
		}
		out.Events = append(out.Events, Ev{StPeople, EvCreate, id, m.snapOf(StPeople, id), false})
		return out
	case StBadges:
		if _, ok := m.Badges[id]; ok {
			return reject("exists", EcAny)
		}
		owner := strOr(op.Ref)
		if owner == "" {
			return reject("owner-empty", EcAny)
		}
		var a acc
		if _, ok := m.People[owner]; !ok {
			a.add("owner-missing", EcNotFound)
		}
		if op.IsSys && !op.Sys {
			a.add("sys-create", EcAny)
		}
		if a.bad() {
			return a.out()
		}
		m.Badges[id] = owner
		m.BadgeSys[id] = op.IsSys
		return Outcome{OK: true, Events: []Ev{{StBadges, EvCreate, id, m.snapOf(StBadges, id), false}}}
	case StNotes, StTickets, StMemos, StReviews, StFolders, StDesks:
		tbl := m.refTable(op.S)
		if _, ok := tbl[id]; ok {
			return reject("exists", EcAny)
		}
		if op.S == StFolders && strOr(op.Ref) == id {
			// a folder that is its own parent: whether the target "exists" at that moment is not specified, and a
			// reference cycle under a cascading delete never terminates; not executed
			return Outcome{Skipped: true, Why: "folder-cycle"}
		}
		if op.Ref != nil && *op.Ref != "" {
			if !m.refTargetExists(op.S, *op.Ref) {
				return reject("ref-missing", EcNotFound)
			}
		} else if op.S == StMemos {
			return reject("ref-null", EcAny) // the fk constraint on memos.topic does not allow null or empty values
		}
		tbl[id] = cloneStrP(op.Ref)
		return Outcome{OK: true, Events: []Ev{{op.S, EvCreate, id, m.snapOf(op.S, id), false}}}
	case StGroups:
		if m.Groups[id] {
			return reject("exists", EcAny)
		}
		m.Groups[id] = true
		return Outcome{OK: true, Events: []Ev{{StGroups, EvCreate, id, m.snapOf(StGroups, id), false}}}
	}
	panic("model: create on unknown store " + op.S)
}

func (m *Model) applyUpdate(op Op, now int64) Outcome {
	id := op.Id
	if id == "" {
		return reject("blank-id", EcAny)
	}
	switch op.S {
	case StDepts:
		cur, ok := m.Depts[id]
		if !ok {
			return reject("absent", EcNotFound)
		}
		name := cur
		if op.updates("name") {
			name = op.Name
		}
		if name != cur {
			if name == "" {
				return reject("name-empty", EcAny)
			}
			for oid, n := range m.Depts {
				if oid != id && n == name {
					return reject("name-dup", EcDup)
				}
			}
		}
		m.Depts[id] = name
		return Outcome{OK: true, Events: []Ev{{StDepts, EvUpdate, id, m.snapOf(StDepts, id), false}}}
	case StPeople, StStaff, StPX:
		p, ok := m.People[id]
		if !ok {
			return reject("absent", EcNotFound)
		}
		// the store the update ends up in: an update through the parent is routed to the child that has data
		via := op.S
		if op.S == StStaff && !p.HasStaff {
			return reject("absent-child", EcNotFound)
		}
		if op.S == StPX && !p.HasPX {
			// extended store: FindById finds the parent entity, the update itself needs extension data.
			return reject("absent-child", EcNotFound, EcAny)
		}
		if op.S == StPeople {
			if p.HasStaff {
				via = StStaff
			} else if p.HasPX {
				via = StPX
			}
		}
		if p.HasStaff && p.HasPX {
			panic("model: entity with both child kinds cannot be reached")
		}
		n := *p
		n.Nick, n.Mentor, n.Roles, n.Tags = cloneStrP(p.Nick), cloneStrP(p.Mentor), append([]string(nil), p.Roles...), cloneTags(p.Tags)
		if op.updates("name") {
			n.Name = op.Name
		}
		if op.updates("nick") {
			n.Nick = cloneStrP(op.Nick)
		}
		if op.updates("roles") {
			n.Roles = sortedUnique(op.Roles)
		}
		if op.updates("dept") {
			n.Dept = op.Dept
		}
		if op.updates("mentor") {
			n.Mentor = cloneStrP(op.Mentor)
		}
		if op.updates("tags") {
			n.Tags = cloneTags(op.Tags)
		}
		if via == StStaff && op.S == StStaff {
			if op.updates("level") {
				n.Level = op.Level
			}
			if op.updates("badgeNo") {
				n.BadgeNo = op.BadgeNo
			}
		}
		if via == StPX && op.S == StPX {
			if op.updates("memo") {
				n.Memo = op.Memo
			}
		}
		if (op.S == StStaff || (op.S == StPX && m.PxMode != 2)) && op.updates("sponsor") {
			n.Sponsor = cloneStrP(op.Ref)
		}
		n.UpdatedAt = now
		var a acc
		rejAdd := a.add
		if p.Sys && !op.Sys {
			rejAdd("sys-update", EcAny)
		}
		// index / fk rules apply to values that change (unchanged values are not re-validated)
		if n.Name != p.Name {
			if n.Name == "" {
				rejAdd("name-empty", EcAny)
			} else {
				for oid, o := range m.People {
					if oid != id && o.Name == n.Name {
						rejAdd("name-dup", EcDup)
					}
				}
			}
		}
		if !ptrEq(n.Nick, p.Nick) && strOr(n.Nick) != strOr(p.Nick) && strOr(n.Nick) != "" {
			for oid, o := range m.People {
				if oid != id && o.Nick != nil && *o.Nick == *n.Nick {
					rejAdd("nick-dup", EcDup)
				}
			}
		}
		if op.updates("tags") && tagsNested(op.Tags) {
			rejAdd("tags-nested", EcAny)
		}
		if !eqStrs(n.Roles, p.Roles) {
			for _, r := range n.Roles {
				if r == "" {
					rejAdd("role-empty", EcAny)
					break
				}
			}
		}
		if n.Dept != p.Dept {
			if n.Dept == "" {
				rejAdd("dept-empty", EcAny)
			} else if _, ok := m.Depts[n.Dept]; !ok {
				rejAdd("dept-missing", EcNotFound)
			}
		}
		if strOr(n.Mentor) != strOr(p.Mentor) && strOr(n.Mentor) != "" {
			if _, ok := m.People[*n.Mentor]; !ok {
				rejAdd("mentor-missing", EcNotFound)
			}
		}
		if op.updates("groups") {
			for _, g := range op.Groups {
				if !m.Groups[g] {
					rejAdd("group-missing", EcNotFound, EcAny)
					break
				}
			}
		}
		if via == StStaff && n.BadgeNo != p.BadgeNo {
			if n.BadgeNo == "" {
				rejAdd("badgeNo-empty", EcAny)
			} else {
				for oid, o := range m.People {
					if oid != id && o.HasStaff && o.BadgeNo == n.BadgeNo {
						rejAdd("badgeNo-dup", EcDup)
					}
				}
			}
		}
		if strOr(n.Sponsor) != strOr(p.Sponsor) && strOr(n.Sponsor) != "" && !m.Groups[*n.Sponsor] {
			rejAdd("sponsor-missing", EcNotFound)
		}
		if via == StPX && n.Memo != p.Memo && n.Memo != "" && m.PxMode != 2 {
			for oid, o := range m.People {
				if oid != id && o.HasPX && o.Memo == n.Memo {
					rejAdd("memo-dup", EcDup)
				}
			}
		}
		if via == StPX && n.Memo != p.Memo && n.Memo == "" && m.PxMode == 1 {
			rejAdd("memo-empty", EcAny)
		}
		if a.bad() {
			return a.out()
		}
		m.People[id] = &n
		if op.updates("groups") {
			for k := range m.Links {
				if k.P == id {
					delete(m.Links, k)
				}
			}
			for _, g := range op.Groups {
				m.Links[pair{id, g}] = true
			}
		}
		out := Outcome{OK: true}
		if via != StPeople {
			out.Events = append(out.Events, Ev{via, EvUpdate, id, m.snapOf(via, id), false})
		}
		out.Events = append(out.Events, Ev{StPeople, EvUpdate, id, m.snapOf(StPeople, id), false})
		return out
	case StBadges:
		cur, ok := m.Badges[id]
		if !ok {
			return reject("absent", EcNotFound)
		}
		owner := cur
		if op.updates("owner") {
			owner = strOr(op.Ref)
		}
		var a acc
		if m.BadgeSys[id] && !op.Sys {
			a.add("sys-update", EcAny)
		}
		if owner != cur {
			if owner == "" {
				a.add("owner-empty", EcAny)
			} else if _, ok := m.People[owner]; !ok {
				a.add("owner-missing", EcNotFound)
			}
		}
		if a.bad() {
			return a.out()
		}
		m.Badges[id] = owner
		return Outcome{OK: true, Events: []Ev{{StBadges, EvUpdate, id, m.snapOf(StBadges, id), false}}}
	case StNotes, StTickets, StMemos, StReviews, StFolders, StDesks:
		tbl, field := m.refTable(op.S), refField(op.S)
		cur, ok := tbl[id]
		if !ok {
			return reject("absent", EcNotFound)
		}
		ref := cur
		if op.updates(field) {
			ref = cloneStrP(op.Ref)
		}
		if op.S == StFolders && strOr(ref) != "" && (strOr(ref) == id || m.folderBelow(id, strOr(ref))) {
			return Outcome{Skipped: true, Why: "folder-cycle"} // would close a reference cycle (see create)
		}
		if strOr(ref) != strOr(cur) && strOr(ref) != "" {
			if !m.refTargetExists(op.S, *ref) {
				return reject("ref-missing", EcNotFound)
			}
		}
		if strOr(ref) != strOr(cur) && strOr(ref) == "" && op.S == StMemos {
			return reject("ref-null", EcAny)
		}
		tbl[id] = ref
		return Outcome{OK: true, Events: []Ev{{op.S, EvUpdate, id, m.snapOf(op.S, id), false}}}
	case StGroups:
		if !m.Groups[id] {
			return reject("absent", EcNotFound)
		}
		return Outcome{OK: true, Events: []Ev{{StGroups, EvUpdate, id, m.snapOf(StGroups, id), false}}}
	}
	panic("model: update on unknown store " + op.S)
}

func (m *Model) applyDelete(op Op) Outcome {
	id := op.Id
	if id == "" {
		return reject("blank-id", EcAny)
	}
	switch op.S {
	case StDepts:
		if _, ok := m.Depts[id]; !ok {
			return reject("absent", EcNotFound)
		}
		for _, p := range m.People {
			if p.Dept == id {
				return reject("dept-referenced", EcRefExists)
			}
		}
		ev := Ev{StDepts, EvDelete, id, m.snapOf(StDepts, id), false}
		delete(m.Depts, id)
		return Outcome{OK: true, Events: []Ev{ev}, Deleted: []IdRef{{StDepts, id}}}
	case StPeople, StStaff, StPX:
		p, ok := m.People[id]
		if !ok {
			return reject("absent", EcNotFound)
		}
		if (op.S == StStaff && !p.HasStaff) || (op.S == StPX && !p.HasPX) {
			// deleting a plain parent entity through a child store: acceptance unspecified; not executed
			return Outcome{Skipped: true, Why: "delete-plain-parent-through-child"}
		}
		var a acc
		rejAdd := a.add
		if p.Sys && !op.Sys {
			rejAdd("sys-delete", EcAny)
		}
		for oid, o := range m.People {
			if oid != id && o.Mentor != nil && *o.Mentor == id {
				rejAdd("mentor-referenced", EcRefExists)
				break
			}
		}
		for _, a := range m.Tickets {
			if a != nil && *a == id {
				rejAdd("ticket-referenced", EcRefExists)
				break
			}
		}
		for _, a := range m.Desks {
			if a != nil && *a == id {
				rejAdd("desk-referenced", EcRefExists)
				break
			}
		}
		for _, a := range m.Reviews {
			// (the restrict constraint belongs to the staff store: whichever store the delete goes through, the
			// entity's staff part is deleted and the constraint must be consulted)
			if a != nil && *a == id && p.HasStaff {
				rejAdd("review-referenced", EcRefExists)
				break
			}
		}
		for bid, o := range m.Badges {
			if o == id && m.BadgeSys[bid] && !op.Sys {
				// the cascade would delete a system entity from an ordinary context
				rejAdd("sys-delete-cascade", EcAny)
				break
			}
		}
		if a.bad() {
			return a.out()
		}
		out := Outcome{OK: true}
		// cascades
		var bids, nids []string
		for bid, o := range m.Badges {
			if o == id {
				bids = append(bids, bid)
			}
		}
		for nid, a := range m.Notes {
			if a != nil && *a == id {
				nids = append(nids, nid)
			}
		}
		sort.Strings(bids)
		sort.Strings(nids)
		for _, bid := range bids {
			out.Events = append(out.Events, Ev{StBadges, EvDelete, bid, m.snapOf(StBadges, bid), false})
			out.Deleted = append(out.Deleted, IdRef{StBadges, bid})
			delete(m.Badges, bid)
			delete(m.BadgeSys, bid)
		}
		for _, nid := range nids {
			out.Events = append(out.Events, Ev{StNotes, EvDelete, nid, m.snapOf(StNotes, nid), false})
			out.Deleted = append(out.Deleted, IdRef{StNotes, nid})
			delete(m.Notes, nid)
		}
		if p.HasStaff {
			out.Events = append(out.Events, Ev{StStaff, EvDelete, id, m.snapOf(StStaff, id), false})
		}
		// extended store: every parent entity is one of its entities; for entities without extension data the
		// property is silent => optional
		out.Events = append(out.Events, Ev{StPX, EvDelete, id, m.snapOf(StPX, id), !p.HasPX})
		out.Events = append(out.Events, Ev{StPeople, EvDelete, id, m.snapOf(StPeople, id), false})
		for k := range m.Links {
			if k.P == id {
				delete(m.Links, k)
			}
		}
		for k := range m.Leads {
			if k.P == id {
				delete(m.Leads, k)
			}
		}
		for k := range m.Kudos {
			if k.P == id {
				delete(m.Kudos, k)
			}
		}
		delete(m.People, id)
		out.Deleted = append(out.Deleted, IdRef{StPeople, id})
		if p.HasStaff || p.HasPX {
			out.Deleted = append(out.Deleted, childKey(id))
		}
		return out
	case StBadges:
		if _, ok := m.Badges[id]; !ok {
			return reject("absent", EcNotFound)
		}
		if m.BadgeSys[id] && !op.Sys {
			return reject("sys-delete", EcAny)
		}
		ev := Ev{StBadges, EvDelete, id, m.snapOf(StBadges, id), false}
		delete(m.Badges, id)
		delete(m.BadgeSys, id)
		return Outcome{OK: true, Events: []Ev{ev}, Deleted: []IdRef{{StBadges, id}}}
	case StNotes, StTickets, StMemos, StReviews, StDesks:
		tbl := m.refTable(op.S)
		if _, ok := tbl[id]; !ok {
			return reject("absent", EcNotFound)
		}
		ev := Ev{op.S, EvDelete, id, m.snapOf(op.S, id), false}
		delete(tbl, id)
		return Outcome{OK: true, Events: []Ev{ev}, Deleted: []IdRef{{op.S, id}}}
	case StFolders:
		if _, ok := m.Folders[id]; !ok {
			return reject("absent", EcNotFound)
		}
		// the cascade removes the whole sub-tree
		out := Outcome{OK: true}
		doomed := []string{id}
		for i := 0; i < len(doomed); i++ {
			var kids []string
			for fid, par := range m.Folders {
				if par != nil && *par == doomed[i] {
					kids = append(kids, fid)
				}
			}
			sort.Strings(kids)
			doomed = append(doomed, kids...)
		}
		for _, fid := range doomed {
			out.Events = append(out.Events, Ev{StFolders, EvDelete, fid, m.snapOf(StFolders, fid), false})
			out.Deleted = append(out.Deleted, IdRef{StFolders, fid})
		}
		for _, fid := range doomed {
			delete(m.Folders, fid)
		}
		return out
	case StGroups:
		if !m.Groups[id] {
			return reject("absent", EcNotFound)
		}
		for _, p := range m.People {
			if (p.HasStaff || p.HasPX) && p.Sponsor != nil && *p.Sponsor == id {
				return reject("sponsor-referenced", EcRefExists) // restrict, from whichever child store the referrer lives in
			}
		}
		out := Outcome{OK: true}
		var mids []string
		for mid, t := range m.Memos {
			if t != nil && *t == id {
				mids = append(mids, mid)
			}
		}
		sort.Strings(mids)
		for _, mid := range mids {
			out.Events = append(out.Events, Ev{StMemos, EvDelete, mid, m.snapOf(StMemos, mid), false})
			out.Deleted = append(out.Deleted, IdRef{StMemos, mid})
			delete(m.Memos, mid)
		}
		ev := Ev{StGroups, EvDelete, id, m.snapOf(StGroups, id), false}
		for k := range m.Links {
			if k.G == id {
				delete(m.Links, k)
			}
		}
		for k := range m.Leads {
			if k.G == id {
				delete(m.Leads, k)
			}
		}
		for k := range m.Kudos {
			if k.G == id {
				delete(m.Kudos, k)
			}
		}
		delete(m.Groups, id)
		out.Events = append(out.Events, ev)
		out.Deleted = append(out.Deleted, IdRef{StGroups, id})
		if len(mids) >= 2 {
			out.Deleted = append(out.Deleted, IdRef{"probe:cascade", id})
		}
		return out
	}
	panic("model: delete on unknown store " + op.S)
}

// deleteWhere: only the pinned query shape  <fkfield> = "<Q>"  on notes / tickets / badges.
func (m *Model) applyDeleteWhere(op Op) Outcome {
	var ids []string
	switch op.S {
	case StNotes:
		for id, a := range m.Notes {
			if a != nil && *a == op.Q {
				ids = append(ids, id)
			}
		}
	case StTickets:
		for id, a := range m.Tickets {
			if a != nil && *a == op.Q {
				ids = append(ids, id)
			}
		}
	case StReviews:
		for id, a := range m.Reviews {
			if a != nil && *a == op.Q {
				ids = append(ids, id)
			}
		}
	case StFolders:
		for id, a := range m.Folders {
			if a != nil && *a == op.Q {
				ids = append(ids, id)
			}
		}
	case StDesks:
		for id, a := range m.Desks {
			if a != nil && *a == op.Q {
				ids = append(ids, id)
			}
		}
	case StMemos:
		for id, a := range m.Memos {
			if a != nil && *a == op.Q {
				ids = append(ids, id)
			}
		}
	case StBadges:
		for id, o := range m.Badges {
			if o == op.Q {
				ids = append(ids, id)
			}
		}
	case StPeople, StStaff, StPX:
		// query  name = "<Q>"  through the named store view
		for id, p := range m.People {
			if p.Name == op.Q && (op.S != StStaff || p.HasStaff) {
				ids = append(ids, id)
			}
		}
	default:
		panic("model: deleteWhere on " + op.S)
	}
	sort.Strings(ids)
	out := Outcome{OK: true}
	for _, id := range ids {
		dst := op.S
		if dst == StPX && !m.People[id].HasPX {
			// DeleteWhere through the extended store reaches DeleteById of that store, which delegates to the parent:
			// for an entity without extension data that is the operation no property specifies
			dst = StPeople
		}
		o := m.applyDelete(Op{K: "delete", S: dst, Id: id, Sys: op.Sys})
		if !o.OK {
			return o
		}
		out.Events = append(out.Events, o.Events...)
		out.Deleted = append(out.Deleted, o.Deleted...)
	}
	return out
}

// link ops. op.S is the side the call is issued on (people: Id is a person, Keys are groups; groups: the reverse).
func (m *Model) applyLink(op Op) Outcome {
	// two collections: people.groups <-> groups.members (sides people / groups) and staff.leading <-> groups.leads
	// (sides staff / leads; the person side needs staff data)
	links, personSide, needStaff := m.Links, op.S == StPeople, false
	if op.S == StStaff || op.S == SideLeads {
		links, personSide, needStaff = m.Leads, op.S == StStaff, true
	}
	personOK := func(id string) bool {
		p, ok := m.People[id]
		return ok && (!needStaff || p.HasStaff)
	}
	mk := func(a, b string) pair {
		if personSide {
			return pair{a, b}
		}
		return pair{b, a}
	}
	localExists := func(id string) bool {
		if personSide {
			return personOK(id)
		}
		return m.Groups[id]
	}
	remoteExists := func(id string) bool {
		if personSide {
			return m.Groups[id]
		}
		return personOK(id)
	}
	if !localExists(op.Id) {
		return reject("link-local-missing", EcAny)
	}
	switch op.K {
	case "addLinks":
		for _, k := range op.Keys {
			if !remoteExists(k) {
				return reject("link-remote-missing", EcNotFound, EcAny)
			}
		}
		for _, k := range op.Keys {
			links[mk(op.Id, k)] = true
		}
		return Outcome{OK: true}
	case "addLink":
		k := op.Keys[0]
		if !remoteExists(k) {
			return reject("link-remote-missing", EcNotFound, EcAny)
		}
		changed := !links[mk(op.Id, k)]
		links[mk(op.Id, k)] = true
		return Outcome{OK: true, Changed: &changed}
	case "removeLinks":
		for _, k := range op.Keys {
			delete(links, mk(op.Id, k))
		}
		return Outcome{OK: true}
	case "removeLink":
		k := op.Keys[0]
		changed := links[mk(op.Id, k)]
		delete(links, mk(op.Id, k))
		return Outcome{OK: true, Changed: &changed}
	case "setLinks":
		// a missing target only matters if it has to be added (it can never be currently linked)
		for _, k := range op.Keys {
			if !remoteExists(k) {
				return reject("link-remote-missing", EcNotFound, EcAny)
			}
		}
		for k := range links {
			if (personSide && k.P == op.Id) || (!personSide && k.G == op.Id) {
				delete(links, k)
			}
		}
		for _, k := range op.Keys {
			links[mk(op.Id, k)] = true
		}
		return Outcome{OK: true}
	}
	panic("model: link op " + op.K)
}

func (m *Model) applyRc(op Op) Outcome {
	mk := func(a, b string) pair {
		if op.S == StPeople {
			return pair{a, b}
		}
		return pair{b, a}
	}
	localExists := func(id string) bool {
		if op.S == StPeople {
			_, ok := m.People[id]
			return ok
		}
		return m.Groups[id]
	}
	remoteExists := func(id string) bool {
		if op.S == StPeople {
			return m.Groups[id]
		}
		_, ok := m.People[id]
		return ok
	}
	if !localExists(op.Id) {
		return reject("rc-local-missing", EcAny)
	}
	k := op.Keys[0]
	key := mk(op.Id, k)
	switch op.K {
	case "incr":
		if !remoteExists(k) {
			return reject("rc-remote-missing", EcNotFound, EcAny)
		}
		m.Kudos[key]++
		c := m.Kudos[key]
		return Outcome{OK: true, Count: &c}
	case "decr":
		cur, ok := m.Kudos[key]
		if !ok {
			// nothing linked (possibly nothing there at all): no error, nothing stored
			c := -1
			return Outcome{OK: true, Count: &c}
		}
		cur--
		if cur <= 0 {
			delete(m.Kudos, key)
		} else {
			m.Kudos[key] = cur
		}
		return Outcome{OK: true, Count: &cur}
	case "setCount":
		if !remoteExists(k) {
			return reject("rc-remote-missing", EcNotFound, EcAny)
		}
		if op.N <= 0 {
			delete(m.Kudos, key)
		} else {
			m.Kudos[key] = op.N
		}
		return Outcome{OK: true}
	}
	panic("model: rc op " + op.K)
}

func eqStrs(a, b []string) bool {
	if len(a) != len(b) {
		return false
	}
	for i := range a {
		if a[i] != b[i] {
			return false
		}
	}
	return true
}

func (m *Model) refTable(store string) map[string]*string {
	switch store {
	case StNotes:
		return m.Notes
	case StTickets:
		return m.Tickets
	case StReviews:
		return m.Reviews
	case StFolders:
		return m.Folders
	case StDesks:
		return m.Desks
	case StMemos:
		return m.Memos
	}
	panic("refTable " + store)
}

func refField(store string) string {
	return map[string]string{StNotes: "about", StTickets: "assignee", StMemos: "topic", StReviews: "reviewer", StFolders: "parent", StDesks: "occupant"}[store]
}

func (m *Model) refTargetExists(store, id string) bool {
	if store == StMemos {
		return m.Groups[id]
	}
	if store == StFolders {
		_, ok := m.Folders[id]
		return ok
	}
	p, ok := m.People[id]
	if store == StReviews {
		return ok && p.HasStaff // the referenced store is the staff view
	}
	return ok
}

// idInAnyStore: an entity of one of the stores whose id alphabets overlap (people, badges, notes) has this id.
func (m *Model) idInAnyStore(id string) bool {
	_, p := m.People[id]
	_, b := m.Badges[id]
	_, n := m.Notes[id]
	_, d := m.Depts[id]
	return p || b || n || d
}

// folderBelow: folder x lies in the sub-tree of folder root (root's descendants; root itself excluded).
func (m *Model) folderBelow(root, x string) bool {
	for hops := 0; hops < 64; hops++ {
		par, ok := m.Folders[x]
		if !ok || par == nil || *par == "" {
			return false
		}
		if *par == root {
			return true
		}
		x = *par
	}
	return true // (cannot happen: the model never holds a cycle)
}

// tagsNested: a value of the tags map is itself a map or a list (an unusable value: the store refuses it).
func tagsNested(t map[string]any) bool {
	for _, v := range t {
		switch v.(type) {
		case map[string]any, []any:
			return true
		}
	}
	return false
}

// pxMode: the px index variant of a plan's schema bits.
func pxMode(schema int) int { return (schema >> 3) % 3 }

// migTime: the timestamps a migrated entity carries.
var migTime = time.Unix(1262304000, 0).UTC()
