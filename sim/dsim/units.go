package dsim

// Units of work of a check. For most properties one unit = one generated plan executed once. For C07 a unit is a
// sampled transaction body together with EVERY failure position x failure kind applicable to it, each executed as
// its own run against the same pre-state (fault enumeration).

import (
	"strings"
	"testing"
)

type emitFn func(plan *Plan, res *RunResult, kind string)

func runUnit(t *testing.T, job Job, i int, emit emitFn) {
	seed := runSeed(job.Base, i)
	switch job.Prop {
	case "C07":
		if i%5 == 4 {
			plan := GenPlan("tx", "C07", seed)
			emit(plan, ExecuteChecked(t, plan, execOptFor(job.Prop)), "explore")
			return
		}
		enumerateC07(t, seed, emit)
	default:
		plan := genFor(job.Profile, job.Prop, seed)
		emit(plan, ExecuteChecked(t, plan, execOptFor(job.Prop)), "explore")
	}
}

func enumerateC07(t *testing.T, seed uint64, emit emitFn) {
	base := GenPlan("txenum", "C07", seed)
	res0 := Execute(t, base, ExecOpt{RecordKeys: true})
	emit(base, res0, "enum-base")
	if res0.HarnessErr != "" || len(res0.Violations) > 0 {
		return
	}
	ti := len(base.Tasks[0].Txs) - 1
	target := base.Tasks[0].Txs[ti]
	txid := base.Tasks[0].Name + "." + itoa(ti)
	var info *AttemptInfo
	for k := range res0.Attempts {
		if res0.Attempts[k].Tx == txid {
			info = &res0.Attempts[k]
		}
	}
	if info == nil {
		return
	}
	n := len(target.Ops)
	variant := func(kind string, mutate func(p *Plan, tx *TxPlan)) {
		v := base.Clone()
		v.Sched = nil
		mutate(v, &v.Tasks[0].Txs[ti])
		v.MaxSteps = 60 + 14*v.NumOps()
		emit(v, Execute(t, v, ExecOpt{}), kind)
	}
	for k := 0; k <= n; k++ {
		k := k
		variant("enum-F1", func(p *Plan, tx *TxPlan) { tx.Faults = append(tx.Faults, Fault{Kind: "F1", At: k}) })
		variant("enum-F5", func(p *Plan, tx *TxPlan) { tx.Faults = append(tx.Faults, Fault{Kind: "F5", At: k}) })
		variant("enum-F4", func(p *Plan, tx *TxPlan) {
			ops := append([]Op{}, tx.Ops[:k]...)
			ops = append(ops, Op{K: "preCommit", Fail: true})
			tx.Ops = append(ops, tx.Ops[k:]...)
		})
		// the failing action is not the last one registered: a succeeding one follows it
		variant("enum-F4", func(p *Plan, tx *TxPlan) {
			ops := append([]Op{}, tx.Ops[:k]...)
			ops = append(ops, Op{K: "preCommit", Fail: true})
			ops = append(ops, tx.Ops[k:]...)
			tx.Ops = append(ops, Op{K: "preCommit"})
		})
	}
	// the type of the injected error rotates through the flavours (plain and the library's own error types)
	nflav := seed
	flavour := func() string {
		nflav++
		return faultFlavours[nflav%uint64(len(faultFlavours))]
	}
	seenEv := map[string]bool{}
	for _, e := range info.Events {
		key := e.Store + "|" + e.Type + "|" + e.Id
		if seenEv[key] {
			continue
		}
		seenEv[key] = true
		for _, typed := range []bool{true, false} {
			e, typed := e, typed
			variant("enum-F3", func(p *Plan, tx *TxPlan) {
				tx.Faults = append(tx.Faults, Fault{Kind: "F3", Store: e.Store, Change: e.Type, Id: e.Id, Typed: typed, Flavour: flavour(), Must: !e.Optional})
			})
		}
	}
	for _, sk := range info.Touched {
		parts := strings.SplitN(sk, ":", 2)
		variant("enum-F6", func(p *Plan, tx *TxPlan) {
			tx.Faults = append(tx.Faults, Fault{Kind: "F6", Site: parts[0], Key: parts[1], Flavour: flavour()})
		})
	}
	for _, fp := range []string{"beforeWriteMetaError", "lackOfDiskSpace"} {
		fp := fp
		variant("enum-F7", func(p *Plan, tx *TxPlan) { tx.Faults = append(tx.Faults, Fault{Kind: "F7", FP: fp}) })
	}
	// F9: the same body as a member of a Batch whose other member fails / succeeds, under three schedules each
	for _, other := range []Op{{K: "update", S: StGroups, Id: "no-such-group"}, {K: "create", S: StTickets, Id: "t2"}} {
		for s := uint64(1); s <= 3; s++ {
			other, s := other, s
			variant("enum-F9", func(p *Plan, tx *TxPlan) {
				tx.Mode = "batch"
				p.Seed = seed + s
				p.Tasks = append(p.Tasks, TaskPlan{Name: "T2", Txs: []TxPlan{{Mode: "batch", Ops: []Op{other}}}})
			})
		}
	}
}

func itoa(i int) string {
	if i == 0 {
		return "0"
	}
	var b []byte
	for i > 0 {
		b = append([]byte{byte('0' + i%10)}, b...)
		i /= 10
	}
	return string(b)
}
