package dsim

// Independent cross-check of C17 / C18 over the recorded history: every committed write transaction stores a
// unique marker, every read transaction reports the marker it saw, a restore sets the marker of the snapshot.
// The operations are stamped with the scheduler's global event sequence number at call and return; porcupine
// decides whether a linearization against a single register exists. Illegal is a violation, Unknown (timeout) is
// never reported.

import (
	"fmt"
	"time"

	"github.com/anishathalye/porcupine"
)

type histOp struct {
	Task   string
	Kind   string // w | r | restore
	Call   uint64
	Ret    uint64
	Nonce  string
	Effect bool // committed write / completed restore
}

type regIn struct {
	Kind  string
	Nonce string
}

var registerModel = porcupine.Model{
	Init: func() interface{} { return "" },
	Step: func(state, input, output interface{}) (bool, interface{}) {
		in := input.(regIn)
		switch in.Kind {
		case "w", "restore":
			return true, in.Nonce
		case "r":
			return output.(string) == state.(string), state
		}
		return false, state
	},
	DescribeOperation: func(input, output interface{}) string {
		in := input.(regIn)
		if in.Kind == "r" {
			return fmt.Sprintf("read -> %q", output)
		}
		return fmt.Sprintf("%s(%q)", in.Kind, in.Nonce)
	},
}

func (r *Run) recordHist(h histOp) {
	r.mu.Lock()
	r.hist = append(r.hist, h)
	r.mu.Unlock()
}

func (r *Run) checkHistory() {
	r.mu.Lock()
	hist := append([]histOp(nil), r.hist...)
	r.mu.Unlock()
	if len(hist) == 0 {
		return
	}
	clients := map[string]int{}
	var ops []porcupine.Operation
	for _, h := range hist {
		if (h.Kind == "w" || h.Kind == "restore") && !h.Effect {
			continue // failed transactions have no effect (that is C07's business)
		}
		if _, ok := clients[h.Task]; !ok {
			clients[h.Task] = len(clients)
		}
		ops = append(ops, porcupine.Operation{ClientId: clients[h.Task], Input: regIn{h.Kind, h.Nonce}, Call: int64(h.Call), Output: h.Nonce, Return: int64(h.Ret)})
	}
	if len(ops) > 120 {
		r.probe("porcupine_skipped_long_history")
		return
	}
	switch porcupine.CheckOperationsTimeout(registerModel, ops, 10*time.Second) {
	case porcupine.Illegal:
		var desc []string
		for _, h := range hist {
			desc = append(desc, fmt.Sprintf("%s %s[%d,%d] %q effect=%v", h.Task, h.Kind, h.Call, h.Ret, h.Nonce, h.Effect))
		}
		props := []string{"C18"}
		if r.plan.Profile == "snap" {
			props = []string{"C17", "C18"}
		}
		r.viols = append(r.viols, Violation{Props: props, Oracle: "porcupine", Sig: "history-not-linearizable",
			Detail: fmt.Sprintf("the recorded history of transactions (commit markers) has no linearization against a single register:\n   %s", joinLines(desc))})
	case porcupine.Unknown:
		r.probe("porcupine_unknown")
	default:
		r.probe("porcupine_ok")
	}
}

func joinLines(l []string) string {
	s := ""
	for i, x := range l {
		if i > 0 {
			s += "\n   "
		}
		s += x
	}
	return s
}
