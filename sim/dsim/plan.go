package dsim

// Plans are data: tasks with transaction scripts, faults attached to the transaction they hit, and the schedule
// (list of task names, recorded on first execution). Every sub-sequence of a plan is again a valid plan: operations
// name ids from fixed universes and the model computes what each must do in whatever state it meets.

import (
	"encoding/hex"
	"encoding/json"
	"fmt"
	"math/rand/v2"
	"os"
	"sort"
)

type Fault struct {
	Kind string `json:"kind"` // F1 caller error | F3 constraint veto | F5 panic | F6 storage-op error | F7 commit failure
	At   int    `json:"at,omitempty"`

	Store  string `json:"store,omitempty"`  // F3
	Change string `json:"change,omitempty"` // F3: C U D
	Id     string `json:"id,omitempty"`     // F3
	Typed  bool   `json:"typed,omitempty"`  // F3: raised by the typed (true) or untyped constraint

	Site string `json:"site,omitempty"` // F6
	Key  string `json:"key,omitempty"`  // F6 hex
	Nth  int    `json:"nth,omitempty"`  // F6: n-th hit of (site,key) inside this transaction attempt (0/1 = first)

	FP string `json:"fp,omitempty"` // F7: bbolt failpoint name

	// Flavour (F3, F6): the type of the injected error. "" a plain error; "notfound" / "dup" / "refexists" one of the
	// library's own error types (a failure must reach the caller whatever its type is)
	Flavour string `json:"flavour,omitempty"`

	// Must (F3, set by the C07 enumeration): the fault-free execution of this very body produced this event, so the
	// constraint MUST be consulted for it; a veto that is never asked for is a veto that cannot reach the caller
	Must bool `json:"must,omitempty"`
}

var faultFlavours = []string{"", "", "notfound", "dup", "refexists"}

func (f Fault) String() string {
	b, _ := json.Marshal(f)
	return string(b)
}

type TxPlan struct {
	Mode   string  `json:"mode"` // update | batch | reopen | view | snapshot | restore | ...
	Ops    []Op    `json:"ops,omitempty"`
	Faults []Fault `json:"faults,omitempty"`
	// profile specific arguments
	Arg  string   `json:"arg,omitempty"`
	Args []string `json:"args,omitempty"`
	N    int      `json:"n,omitempty"`
	// PreReg: a pre-commit action is registered on the context BEFORE Db.Update / Db.Batch is called ("ok" | "fail"):
	// it guards every execution of the function, re-executions by Batch included
	PreReg string `json:"preReg,omitempty"`
	// Early: the call is issued without waiting for the reload lock to be free (it then queues inside the library,
	// behind a restore that is pending or in progress)
	Early bool `json:"early,omitempty"`
	// Ctx: the context handed to Db.Update / Db.Batch. "" a fresh ordinary context, "nil" no context at all (the
	// library makes one), "cancel" an ordinary context whose context.Context is cancelled before the function returns,
	// "reuse" the very context object of the task's previous call (only between transactions that register no actions),
	// "sys" a system context (every operation of the transaction then runs as system)
	Ctx string `json:"ctx,omitempty"`
}

type TaskPlan struct {
	Name string   `json:"name"`
	Txs  []TxPlan `json:"txs"`
}

type Corruption struct {
	Class string `json:"class"`
	N     int    `json:"n"` // selects the target among the candidates present in the reached state
}

type Plan struct {
	Profile   string       `json:"profile"`
	Prop      string       `json:"prop"`
	Seed      uint64       `json:"seed"`
	Tasks     []TaskPlan   `json:"tasks"`
	Corrupt   []Corruption `json:"corrupt,omitempty"`
	Sched     []string     `json:"sched,omitempty"`
	MaxSteps  int          `json:"maxSteps"`
	Listeners bool         `json:"listeners,omitempty"`
	Nonce     bool         `json:"nonce,omitempty"` // every write transaction stores a unique commit marker
	// Schema: order-only variations of the store wiring (the behaviour every property prescribes is the same):
	// bit 0 the extended child store registers its strategy before the plain one, bit 1 the system-entity constraint
	// of people is added before its indexes, bit 2 the base path of the stores is a slice with spare capacity, bits 3-4 how the extended child store
	// indexes its own field (Model.PxMode), bit 5 a base path of two segments
	Schema int    `json:"schema,omitempty"`
	Note   string `json:"note,omitempty"`
	// filled in when a violation is written out
	Violation *Violation `json:"violation,omitempty"`
}

func (p *Plan) Clone() *Plan {
	b, _ := json.Marshal(p)
	var c Plan
	if err := json.Unmarshal(b, &c); err != nil {
		panic(err)
	}
	return &c
}

func (p *Plan) NumOps() int {
	n := 0
	for _, t := range p.Tasks {
		for _, tx := range t.Txs {
			n += len(tx.Ops)
			if len(tx.Ops) == 0 {
				n++
			}
		}
	}
	return n
}

func (p *Plan) NumFaults() int {
	n := 0
	for _, t := range p.Tasks {
		for _, tx := range t.Txs {
			n += len(tx.Faults)
		}
	}
	return n + len(p.Corrupt)
}

func LoadPlan(path string) (*Plan, error) {
	b, err := os.ReadFile(path)
	if err != nil {
		return nil, err
	}
	var p Plan
	if err := json.Unmarshal(b, &p); err != nil {
		return nil, err
	}
	return &p, nil
}

func SavePlan(path string, p *Plan) error {
	b, err := json.MarshalIndent(p, "", " ")
	if err != nil {
		return err
	}
	return os.WriteFile(path, b, 0644)
}

// ---------- universes ----------

type Universe struct {
	Depts, DeptNames, People, Names, Nicks, Roles, Badges, Notes, Tickets, Groups, BadgeNos, Memos, TagKeys, MemoIds, Reviews, Folders, Desks []string
}

// Ids and values are disjoint alphabets so that "the id occurs nowhere" is decidable by byte search, with two
// deliberate exceptions: dept "p1", badge "p2" and note "p3" share their id with a person (state that a constraint keeps per
// id must not leak from one store's entity to another's; sharedId() relaxes the trace search for them). The people
// and group universes deliberately contain hostile id strings (quote, backslash, filter syntax): C04 quantifies
// over all id strings.
var U = Universe{
	Depts:     []string{"d1", "d2", "d3", "p1"},
	DeptNames: []string{"dn1", "dn2", "dn3", "dn4"},
	People:    []string{"p1", "p2", "p3", "p4", "p1a", `a"b`, `a\b`, `x" or id != "`, `c\nd`, `e\\f`},
	Names:     []string{"n1", "n2", "n3", "n4", "n5"},
	Nicks:     []string{"k1", "k2"},
	Roles:     []string{"r1", "r2", "r3"},
	Badges:    []string{"b1", "b2", "b3", "p2"},
	Notes:     []string{"o1", "o2", "o3", "o4", "o5", "zn", "p3"},
	Tickets:   []string{"t1", "t2", "zt"},
	Reviews:   []string{"v1", "v2", "v3"},
	Folders:   []string{"f1", "f2", "f3", "f4", "f5", "f6", "f7"},
	Desks:     []string{"w1", "w2", "w3"},
	Groups:    []string{"g1", "g2", "g3", "g1a", `g"4`},
	BadgeNos:  []string{"bn1", "bn2", "bn3"},
	Memos:     []string{"m1", "m2", "m3", "m4"},
	TagKeys:   []string{"tk1", "tk2"},
	MemoIds:   []string{"e1", "e2", "e3", "e4", "e5"},
}

const nHostilePeople = 5 // (the id before them, p1a, has p1 as a strict prefix)
// hostile: quote, backslash, filter syntax, backslash + escape letter, double backslash

// sharedId: the id is used by entities of more than one store.
func sharedId(id string) bool { return id == "p1" || id == "p2" || id == "p3" }

func (u Universe) ByStore() map[string][]string {
	return map[string][]string{StDepts: u.Depts, StPeople: u.People, StStaff: u.People, StPX: u.People, StBadges: u.Badges,
		StNotes: u.Notes, StTickets: u.Tickets, StGroups: u.Groups, StMemos: u.MemoIds, StReviews: u.Reviews, StFolders: u.Folders, StDesks: u.Desks}
}

// ---------- generator ----------

type GenCfg struct {
	Profile   string
	Prop      string
	Tasks     int
	TxPerTask int
	MaxOps    int
	PValid    float64 // probability that an operation's arguments are chosen to be valid in the generator's shadow state
	Hostile   bool    // hostile id strings enabled
	FaultRate float64 // per transaction
	Faults    []string
	BatchRate float64
	Reopen    float64
	Weights   map[string]int // op kind weights
	Listeners bool
}

type gen struct {
	r      *rand.Rand
	cfg    GenCfg
	shadow *Model
	now    int64
}

func pick[T any](r *rand.Rand, l []T) T { return l[r.IntN(len(l))] }

func (g *gen) people() []string {
	if g.cfg.Hostile {
		return U.People
	}
	return U.People[:len(U.People)-nHostilePeople]
}

func (g *gen) groups() []string {
	if g.cfg.Hostile {
		return U.Groups
	}
	return U.Groups[:len(U.Groups)-1]
}

func (g *gen) valid() bool { return g.r.Float64() < g.cfg.PValid }

func keysOf[V any](m map[string]V) []string {
	var r []string
	for k := range m {
		r = append(r, k)
	}
	sort.Strings(r)
	return r
}

func absent(all []string, have []string) []string {
	var r []string
	for _, a := range all {
		if !containsStr(have, a) {
			r = append(r, a)
		}
	}
	return r
}

func (g *gen) strp(s string) *string { return &s }

func (g *gen) personFields(op *Op, exclude string) {
	sh := g.shadow
	// name
	if g.valid() {
		var used []string
		for id, p := range sh.People {
			if id != exclude {
				used = append(used, p.Name)
			}
		}
		if free := absent(U.Names, used); len(free) > 0 {
			op.Name = pick(g.r, free)
		} else {
			op.Name = pick(g.r, U.Names)
		}
	} else if g.r.IntN(8) == 0 {
		op.Name = ""
	} else {
		op.Name = pick(g.r, U.Names)
	}
	switch g.r.IntN(6) {
	case 0:
		op.Nick = g.strp("")
	case 1, 2:
		op.Nick = g.strp(pick(g.r, U.Nicks))
	}
	n := g.r.IntN(4)
	for i := 0; i < n; i++ {
		if !g.valid() && g.r.IntN(10) == 0 {
			op.Roles = append(op.Roles, "")
		} else {
			op.Roles = append(op.Roles, pick(g.r, U.Roles))
		}
	}
	if ds := keysOf(sh.Depts); g.valid() && len(ds) > 0 {
		op.Dept = pick(g.r, ds)
	} else if g.r.IntN(10) == 0 {
		op.Dept = ""
	} else {
		op.Dept = pick(g.r, U.Depts)
	}
	switch g.r.IntN(4) {
	case 0:
		if ps := keysOf(sh.People); g.valid() && len(ps) > 0 {
			op.Mentor = g.strp(pick(g.r, ps))
		} else {
			op.Mentor = g.strp(pick(g.r, g.people()))
		}
	case 1:
		if g.r.IntN(4) == 0 {
			op.Mentor = g.strp("")
		}
	}
	switch g.r.IntN(4) {
	case 0:
		// tka always holds a string, tkb a bool (letters only: the query grammar has no digits in map keys): the tag query of the views oracle stays within one type
		op.Tags = map[string]any{"tka": pick(g.r, []string{"tv", "tv", "tw"})}
	case 1:
		op.Tags = map[string]any{"tkb": true, "tk3": nil}
	case 2:
		if g.r.IntN(2) == 0 {
			op.Tags = map[string]any{"tka": pick(g.r, []string{"tv", "tw"}), "tkb": g.r.IntN(2) == 0}
		}
	case 3:
		switch g.r.IntN(6) {
		case 0:
			op.Tags = map[string]any{"tkc": 2.5, "tka": "tv"} // a float value
		case 1:
			if !g.valid() {
				// an unusable value in the middle of the map: the write fails after some keys were stored
				op.Tags = map[string]any{"tka": "tv", "tkd": map[string]any{"x": "y"}, "tkz": "zz"}
			}
		}
	}
	ng := g.r.IntN(3)
	for i := 0; i < ng; i++ {
		if gs := keysOf(sh.Groups); g.valid() && len(gs) > 0 {
			op.Groups = append(op.Groups, pick(g.r, gs))
		} else {
			op.Groups = append(op.Groups, pick(g.r, g.groups()))
		}
	}
}

func (g *gen) checker(op *Op, fields []string) {
	if g.r.IntN(2) == 0 {
		return // full update
	}
	op.HasChk = true
	for _, f := range fields {
		if g.r.IntN(3) == 0 {
			op.Chk = append(op.Chk, f)
		}
	}
}

// "isSystem" can be named by a field checker like any other field; the flag must stay what it was at creation (C16)
var personFieldNames = []string{"name", "nick", "roles", "dept", "mentor", "tags", "groups", "isSystem"}

func (g *gen) genOp() Op {
	sh := g.shadow
	total := 0
	kinds := keysOf(g.cfg.Weights)
	for _, k := range kinds {
		total += g.cfg.Weights[k]
	}
	x := g.r.IntN(total)
	kind := ""
	for _, k := range kinds {
		if x < g.cfg.Weights[k] {
			kind = k
			break
		}
		x -= g.cfg.Weights[k]
	}
	op := Op{}
	sysEntity := g.r.IntN(6) == 0
	pickStore := func() string {
		// people family weighted up: it carries most of the wiring
		return pick(g.r, []string{StDepts, StPeople, StPeople, StPeople, StStaff, StStaff, StPX, StBadges, StNotes, StTickets, StGroups, StMemos, StReviews, StFolders, StFolders, StDesks})
	}
	existingIn := func(store string) []string {
		switch store {
		case StDepts:
			return keysOf(sh.Depts)
		case StPeople, StPX:
			return keysOf(sh.People)
		case StStaff:
			var r []string
			for id, p := range sh.People {
				if p.HasStaff {
					r = append(r, id)
				}
			}
			sort.Strings(r)
			return r
		case StBadges:
			return keysOf(sh.Badges)
		case StNotes:
			return keysOf(sh.Notes)
		case StTickets:
			return keysOf(sh.Tickets)
		case StReviews:
			return keysOf(sh.Reviews)
		case StFolders:
			return keysOf(sh.Folders)
		case StDesks:
			return keysOf(sh.Desks)
		case StGroups:
			return keysOf(sh.Groups)
		case StMemos:
			return keysOf(sh.Memos)
		}
		return nil
	}
	universeOf := func(store string) []string {
		switch store {
		case StPeople, StStaff, StPX:
			return g.people()
		case StGroups:
			return g.groups()
		}
		return U.ByStore()[store]
	}
	refPerson := func() *string {
		if ps := keysOf(sh.People); g.valid() && len(ps) > 0 {
			return g.strp(pick(g.r, ps))
		}
		switch g.r.IntN(10) {
		case 0, 1:
			return nil
		case 2:
			// a reference that happens to equal an id of the referencing store (never a person): still a missing target
			return g.strp(pick(g.r, []string{"zn", "zt"}))
		}
		return g.strp(pick(g.r, g.people()))
	}
	refStaff := func() *string {
		var ss []string
		for id, p := range sh.People {
			if p.HasStaff {
				ss = append(ss, id)
			}
		}
		sort.Strings(ss)
		if g.valid() && len(ss) > 0 {
			return g.strp(pick(g.r, ss))
		}
		if g.r.IntN(6) == 0 {
			return nil
		}
		return refPerson() // often a person without staff data: not an entity of the referenced store
	}
	refFolder := func() *string {
		if fs := keysOf(sh.Folders); len(fs) > 0 && g.r.IntN(5) != 0 {
			return g.strp(pick(g.r, fs))
		}
		if g.r.IntN(3) == 0 {
			return g.strp(pick(g.r, U.Folders))
		}
		return nil
	}
	refGroup := func() *string {
		if gs := keysOf(sh.Groups); g.valid() && len(gs) > 0 {
			return g.strp(pick(g.r, gs))
		}
		if g.r.IntN(5) == 0 {
			return nil
		}
		return g.strp(pick(g.r, g.groups()))
	}
	switch kind {
	case "create":
		op.K, op.S = "create", pickStore()
		base := op.S
		if base == StStaff || base == StPX {
			base = StPeople
		}
		if free := absent(universeOf(op.S), existingIn(base)); g.valid() && len(free) > 0 {
			op.Id = pick(g.r, free)
		} else {
			op.Id = pick(g.r, universeOf(op.S))
		}
		switch op.S {
		case StDepts:
			if free := absent(U.DeptNames, valuesOf(sh.Depts)); g.valid() && len(free) > 0 {
				op.Name = pick(g.r, free)
			} else {
				op.Name = pick(g.r, U.DeptNames)
			}
		case StPeople, StStaff, StPX:
			g.personFields(&op, op.Id)
			op.IsSys = sysEntity
			op.Mig = g.r.IntN(10) == 0
			op.Sys = sysEntity && g.r.IntN(4) != 0 || g.r.IntN(10) == 0
			if op.S == StStaff {
				op.Level = int32(g.r.IntN(3))
				var used []string
				for _, p := range sh.People {
					if p.HasStaff {
						used = append(used, p.BadgeNo)
					}
				}
				if free := absent(U.BadgeNos, used); g.valid() && len(free) > 0 {
					op.BadgeNo = pick(g.r, free)
				} else {
					op.BadgeNo = pick(g.r, U.BadgeNos)
				}
			}
			if (op.S == StStaff || op.S == StPX) && g.r.IntN(3) == 0 {
				op.Ref = refGroup() // sponsor
			}
			if op.S == StPX {
				var used []string
				for _, p := range sh.People {
					if p.HasPX {
						used = append(used, p.Memo)
					}
				}
				if free := absent(U.Memos, used); g.valid() && len(free) > 0 {
					op.Memo = pick(g.r, free)
				} else {
					op.Memo = pick(g.r, U.Memos)
				}
				if g.r.IntN(6) == 0 {
					op.Memo = "" // the index is nullable: any number of entities without a memo
				}
			}
		case StBadges:
			op.Ref = refPerson()
			op.IsSys = g.r.IntN(5) == 0
			op.Sys = op.IsSys && g.r.IntN(4) != 0 || g.r.IntN(12) == 0
		case StNotes, StTickets:
			if g.r.IntN(5) != 0 {
				op.Ref = refPerson()
			}
		case StMemos:
			if g.r.IntN(6) != 0 {
				op.Ref = refGroup()
			}
		case StReviews:
			if g.r.IntN(6) != 0 {
				op.Ref = refStaff()
			}
		case StFolders:
			op.Ref = refFolder()
		case StDesks:
			if g.r.IntN(6) != 0 {
				op.Ref = refPerson()
			}
		}
	case "update":
		op.K, op.S = "update", pickStore()
		if ex := existingIn(op.S); g.valid() && len(ex) > 0 {
			op.Id = pick(g.r, ex)
		} else {
			op.Id = pick(g.r, universeOf(op.S))
		}
		switch op.S {
		case StDepts:
			op.Name = pick(g.r, U.DeptNames)
			g.checker(&op, []string{"name"})
		case StPeople, StStaff, StPX:
			g.personFields(&op, op.Id)
			// keep the current name half of the time so that updates do not fail on the unique name alone
			if p, ok := sh.People[op.Id]; ok && g.r.IntN(2) == 0 {
				op.Name = p.Name
			}
			op.IsSys = g.r.IntN(6) == 0 // attempts to flip the flag either way
			op.Mig = g.r.IntN(8) == 0   // ... also with the entity value of an import (Migrate set)
			if p, ok := sh.People[op.Id]; ok && p.Sys {
				op.Sys = g.r.IntN(4) != 0
			} else {
				op.Sys = g.r.IntN(10) == 0
			}
			fields := personFieldNames
			if op.S == StStaff {
				op.Level = int32(g.r.IntN(3))
				op.BadgeNo = pick(g.r, U.BadgeNos)
				if p, ok := sh.People[op.Id]; ok && p.HasStaff && g.r.IntN(2) == 0 {
					op.BadgeNo = p.BadgeNo
				}
				fields = append(append([]string{}, fields...), "level", "badgeNo", "sponsor")
				if g.r.IntN(3) == 0 {
					op.Ref = refGroup()
				} else if p, ok := sh.People[op.Id]; ok {
					op.Ref = cloneStrP(p.Sponsor)
				}
			}
			if op.S == StPX {
				op.Memo = pick(g.r, append([]string{""}, U.Memos...))
				if p, ok := sh.People[op.Id]; ok && p.HasPX && g.r.IntN(2) == 0 {
					op.Memo = p.Memo
				}
				fields = append(append([]string{}, fields...), "memo", "sponsor")
				if g.r.IntN(3) == 0 {
					op.Ref = refGroup()
				} else if p, ok := sh.People[op.Id]; ok {
					op.Ref = cloneStrP(p.Sponsor)
				}
			}
			g.checker(&op, fields)
		case StBadges:
			op.Ref = refPerson()
			op.IsSys = g.r.IntN(6) == 0
			op.Sys = sh.BadgeSys[op.Id] && g.r.IntN(4) != 0 || g.r.IntN(12) == 0
			g.checker(&op, []string{"owner", "isSystem"})
		case StNotes:
			op.Ref = refPerson()
			g.checker(&op, []string{"about"})
		case StTickets:
			op.Ref = refPerson()
			g.checker(&op, []string{"assignee"})
		case StMemos:
			op.Ref = refGroup()
			g.checker(&op, []string{"topic"})
		case StReviews:
			op.Ref = refStaff()
			g.checker(&op, []string{"reviewer"})
		case StFolders:
			op.Ref = refFolder()
			g.checker(&op, []string{"parent"})
		case StDesks:
			op.Ref = refPerson()
			g.checker(&op, []string{"occupant"})
		}
	case "delete":
		op.K, op.S = "delete", pickStore()
		if ex := existingIn(op.S); g.valid() && len(ex) > 0 {
			op.Id = pick(g.r, ex)
		} else {
			op.Id = pick(g.r, universeOf(op.S))
		}
		if p, ok := sh.People[op.Id]; ok && p.Sys && (op.S == StPeople || op.S == StStaff || op.S == StPX) {
			op.Sys = g.r.IntN(4) != 0
		} else if op.S == StBadges && sh.BadgeSys[op.Id] {
			op.Sys = g.r.IntN(4) != 0
		} else {
			op.Sys = g.r.IntN(12) == 0
		}
		if op.S == StPeople || op.S == StStaff || op.S == StPX {
			for bid, o := range sh.Badges {
				if o == op.Id && sh.BadgeSys[bid] && g.r.IntN(2) == 0 {
					op.Sys = true // the cascade reaches a system badge
				}
			}
		}
	case "deleteWhere":
		op.K, op.S = "deleteWhere", pick(g.r, []string{StNotes, StTickets, StBadges, StPeople, StPeople, StStaff, StPX, StMemos, StReviews, StFolders, StDesks})
		op.Q = pick(g.r, U.People[:len(U.People)-nHostilePeople]) // query text only from values the existing suite pins
		if op.S == StMemos {
			op.Q = pick(g.r, U.Groups[:len(U.Groups)-1])
		}
		if op.S == StFolders {
			op.Q = pick(g.r, U.Folders)
		}
		if op.S == StPeople || op.S == StStaff || op.S == StPX {
			op.Q = pick(g.r, U.Names)
			if ps := keysOf(sh.People); g.valid() && len(ps) > 0 {
				op.Q = sh.People[pick(g.r, ps)].Name
			}
			if p := sh.People; len(p) > 0 {
				for _, x := range p {
					if x.Name == op.Q && x.Sys {
						op.Sys = g.r.IntN(3) != 0
					}
				}
			}
		}
	case "link":
		op.K = pick(g.r, []string{"addLinks", "removeLinks", "setLinks", "setLinks", "addLink", "removeLink"})
		op.S = pick(g.r, []string{StPeople, StGroups, StPeople, StGroups, StStaff, SideLeads})
		local, remote := g.people(), g.groups()
		exL, exR := keysOf(sh.People), keysOf(sh.Groups)
		if op.S == StStaff || op.S == SideLeads {
			exL = nil
			for id, p := range sh.People {
				if p.HasStaff {
					exL = append(exL, id)
				}
			}
			sort.Strings(exL)
		}
		if op.S == StGroups || op.S == SideLeads {
			local, remote, exL, exR = remote, local, exR, exL
		}
		if g.valid() && len(exL) > 0 {
			op.Id = pick(g.r, exL)
		} else {
			op.Id = pick(g.r, local)
		}
		n := 1
		if op.K == "addLinks" || op.K == "removeLinks" {
			n = 1 + g.r.IntN(3)
		}
		if op.K == "setLinks" {
			n = g.r.IntN(5)
		}
		for i := 0; i < n; i++ {
			if g.valid() && len(exR) > 0 {
				op.Keys = append(op.Keys, pick(g.r, exR))
			} else {
				op.Keys = append(op.Keys, pick(g.r, remote))
			}
		}
	case "rc":
		op.K = pick(g.r, []string{"incr", "incr", "decr", "setCount"})
		op.S = pick(g.r, []string{StPeople, StGroups})
		local, remote := g.people(), g.groups()
		exL, exR := keysOf(sh.People), keysOf(sh.Groups)
		if op.S == StGroups {
			local, remote, exL, exR = remote, local, exR, exL
		}
		if g.valid() && len(exL) > 0 {
			op.Id = pick(g.r, exL)
		} else {
			op.Id = pick(g.r, local)
		}
		if g.valid() && len(exR) > 0 {
			op.Keys = []string{pick(g.r, exR)}
		} else {
			op.Keys = []string{pick(g.r, remote)}
		}
		op.N = g.r.IntN(4)
	case "preCommit":
		op.K = "preCommit"
		op.Fail = g.r.IntN(3) == 0
		op.Sys = g.r.IntN(3) == 0
	case "commitAction":
		op.K = "commitAction"
		op.TxCtx = g.r.IntN(4) == 0
		op.Sys = !op.TxCtx && g.r.IntN(3) == 0
	case "updateCtx":
		op.K = "updateCtx"
	case "listen":
		// a listener registered while the transaction is in flight (between its operations and its commit)
		op.K = "listen"
		op.S = pick(g.r, []string{StPeople, StPeople, StStaff, StPX, StBadges, StNotes, StGroups, StDepts})
		op.N = g.r.IntN(3)
	default:
		panic("gen: unknown kind " + kind)
	}
	if (op.K == "create" || op.K == "update" || op.K == "delete") && !g.valid() && g.r.IntN(12) == 0 {
		op.Id = "" // a blank id: refused by every store operation
	}
	return op
}

func valuesOf(m map[string]string) []string {
	var r []string
	for _, v := range m {
		r = append(r, v)
	}
	sort.Strings(r)
	return r
}

// f6Dictionary: plausible (site,key) pairs for storage-op faults, keyed by identity rather than call order.
func (g *gen) f6() Fault {
	site := pick(g.r, []string{"put", "put", "put", "delete", "createBucket", "createBucketIfNotExists", "deleteBucket", "cursorDelete"})
	var keys []string
	typed := func(l []string) {
		for _, s := range l {
			keys = append(keys, string(append([]byte{5}, s...)))
		}
	}
	switch site {
	case "put":
		keys = append(keys, "name", "nick", "alias", "dept", "mentor", "createdAt", "updatedAt", "isSystem", "owner", "about", "assignee", "topic", "reviewer", "parent", "occupant", "desks", "sponsor", "salary", "rate", "hired", "level", "badgeNo", "memo", "tka", "tkb", "tk3")
		keys = append(keys, U.Names...)
		keys = append(keys, U.DeptNames...)
		keys = append(keys, U.BadgeNos...)
		typed(g.people())
		typed(g.groups())
		typed(U.Roles)
		typed(U.Badges)
	case "delete":
		keys = append(keys, U.Names...)
		keys = append(keys, U.Nicks...)
		keys = append(keys, U.DeptNames...)
		typed(g.people())
		typed(g.groups())
		typed(U.Badges)
	case "createBucket", "createBucketIfNotExists":
		keys = append(keys, "roles", "tags", "groups", "members", "mentees", "badges", "kudos", "kudosFrom", StStaff, StPX)
		keys = append(keys, U.Roles...)
		keys = append(keys, g.people()...)
		keys = append(keys, U.Depts...)
		keys = append(keys, g.groups()...)
		keys = append(keys, U.Badges...)
		keys = append(keys, U.Notes...)
	case "deleteBucket":
		keys = append(keys, "roles", "tags")
		keys = append(keys, U.Roles...)
		keys = append(keys, g.people()...)
		keys = append(keys, U.Depts...)
		keys = append(keys, g.groups()...)
		keys = append(keys, U.Badges...)
		keys = append(keys, U.Notes...)
		keys = append(keys, U.Tickets...)
		keys = append(keys, U.Reviews...)
		keys = append(keys, U.Folders...)
		keys = append(keys, U.Desks...)
	case "cursorDelete":
		typed(g.people())
	}
	return Fault{Kind: "F6", Site: site, Key: hex.EncodeToString([]byte(pick(g.r, keys)))}
}

func (g *gen) genFault(nops int) Fault {
	k := pick(g.r, g.cfg.Faults)
	switch k {
	case "F1":
		return Fault{Kind: "F1", At: g.r.IntN(nops + 1)}
	case "F5":
		return Fault{Kind: "F5", At: g.r.IntN(nops + 1)}
	case "F3":
		return Fault{Kind: "F3", Store: pick(g.r, AllStores), Change: pick(g.r, []string{EvCreate, EvUpdate, EvDelete, EvDelete}), Typed: g.r.IntN(2) == 0, Flavour: pick(g.r, faultFlavours)}
	case "F6":
		f := g.f6()
		f.Flavour = pick(g.r, faultFlavours)
		return f
	case "F7":
		return Fault{Kind: "F7", FP: pick(g.r, []string{"beforeWriteMetaError", "beforeWriteMetaError", "lackOfDiskSpace"})}
	}
	panic("gen: fault kind " + k)
}

// prologue creates a few depts and groups so that most later transactions can commit.
func (g *gen) prologue() TxPlan {
	tx := TxPlan{Mode: "update"}
	nd := 1 + g.r.IntN(2)
	for i := 0; i < nd; i++ {
		tx.Ops = append(tx.Ops, Op{K: "create", S: StDepts, Id: U.Depts[i], Name: U.DeptNames[i]})
	}
	ng := 1 + g.r.IntN(2)
	for i := 0; i < ng; i++ {
		tx.Ops = append(tx.Ops, Op{K: "create", S: StGroups, Id: U.Groups[i]})
	}
	if g.r.IntN(2) == 0 {
		tx.Ops = append([]Op{{K: "initIndexes"}}, tx.Ops...)
	}
	for _, op := range tx.Ops {
		g.shadow.Apply(op, 0)
	}
	return tx
}

// cascadeBurst: several referrers of one person are created and the person is deleted in the same transaction
// (cascades and restrict checks then run over buckets already modified in this transaction).
func (g *gen) cascadeBurst() (TxPlan, bool) {
	if g.r.IntN(3) == 0 {
		// a folder tree (built in this transaction on top of whatever exists) whose root is deleted: the cascade
		// re-enters the same constraint once per level, siblings with children of their own included
		free := absent(U.Folders, keysOf(g.shadow.Folders))
		if len(free) >= 3 {
			g.r.Shuffle(len(free), func(i, j int) { free[i], free[j] = free[j], free[i] })
			tx := TxPlan{Mode: "update"}
			root := free[0]
			tx.Ops = append(tx.Ops, Op{K: "create", S: StFolders, Id: root})
			made := []string{root}
			for _, id := range free[1:] {
				// mostly a bushy tree: children of the root, grandchildren below the first children
				par := made[g.r.IntN(len(made))]
				if len(made) <= 2 {
					par = root
				}
				tx.Ops = append(tx.Ops, Op{K: "create", S: StFolders, Id: id, Ref: g.strp(par)})
				made = append(made, id)
			}
			if g.r.IntN(4) != 0 {
				tx.Ops = append(tx.Ops, Op{K: "delete", S: StFolders, Id: made[g.r.IntN(2)]})
			}
			return tx, true
		}
		if ex := keysOf(g.shadow.Folders); len(ex) > 0 {
			return TxPlan{Mode: "update", Ops: []Op{{K: "delete", S: StFolders, Id: pick(g.r, ex)}}}, true
		}
	}
	if gs := keysOf(g.shadow.Groups); len(gs) > 0 && g.r.IntN(2) == 0 {
		// a group and the memos about it: the cascade target has no child stores, so the cascade runs exactly once
		grp := pick(g.r, gs)
		tx := TxPlan{Mode: "update"}
		ids := absent(U.MemoIds, keysOf(g.shadow.Memos))
		g.r.Shuffle(len(ids), func(i, j int) { ids[i], ids[j] = ids[j], ids[i] })
		n := 1 + g.r.IntN(5)
		for i := 0; i < n && i < len(ids); i++ {
			tx.Ops = append(tx.Ops, Op{K: "create", S: StMemos, Id: ids[i], Ref: g.strp(grp)})
		}
		if ex := keysOf(g.shadow.Memos); len(ex) > 0 && g.r.IntN(3) == 0 {
			tx.Ops = append(tx.Ops, Op{K: "delete", S: StMemos, Id: pick(g.r, ex)})
		}
		tx.Ops = append(tx.Ops, Op{K: "delete", S: StGroups, Id: grp})
		return tx, true
	}
	ps := keysOf(g.shadow.People)
	if len(ps) == 0 {
		return TxPlan{}, false
	}
	p := pick(g.r, ps)
	// prefer a person whose delete nothing restricts (the burst is about the cascade)
	for tries := 0; tries < 6; tries++ {
		if o := g.shadow.Clone().Apply(Op{K: "delete", S: StPeople, Id: p, Sys: true}, 0); o.OK {
			break
		}
		p = pick(g.r, ps)
	}
	tx := TxPlan{Mode: "update"}
	store := pick(g.r, []string{StNotes, StNotes, StBadges})
	ids := absent(U.ByStore()[store], keysOfAny(g.shadow, store))
	g.r.Shuffle(len(ids), func(i, j int) { ids[i], ids[j] = ids[j], ids[i] })
	n := 1 + g.r.IntN(4)
	for i := 0; i < n && i < len(ids); i++ {
		if ids[i] == "zn" {
			continue
		}
		tx.Ops = append(tx.Ops, Op{K: "create", S: store, Id: ids[i], Ref: g.strp(p)})
	}
	if g.r.IntN(3) == 0 {
		if ex := keysOfAny(g.shadow, store); len(ex) > 0 {
			tx.Ops = append(tx.Ops, Op{K: "delete", S: store, Id: pick(g.r, ex)})
		}
	}
	via := StPeople
	if mp := g.shadow.People[p]; mp.HasStaff && g.r.IntN(2) == 0 {
		via = StStaff
	} else if mp.HasPX && g.r.IntN(2) == 0 {
		via = StPX
	}
	del := Op{K: "delete", S: via, Id: p, Sys: g.shadow.People[p].Sys || g.r.IntN(4) == 0}
	tx.Ops = append(tx.Ops, del)
	return tx, true
}

func keysOfAny(m *Model, store string) []string {
	switch store {
	case StNotes:
		return keysOf(m.Notes)
	case StBadges:
		return keysOf(m.Badges)
	case StTickets:
		return keysOf(m.Tickets)
	case StReviews:
		return keysOf(m.Reviews)
	case StDesks:
		return keysOf(m.Desks)
	}
	return nil
}

// churn: the same id is deleted, created again and deleted again (or created, deleted, created) inside one transaction.
func (g *gen) churn() (TxPlan, bool) {
	ps := keysOf(g.shadow.People)
	ds := keysOf(g.shadow.Depts)
	if len(ps) == 0 || len(ds) == 0 {
		return TxPlan{}, false
	}
	id := pick(g.r, ps)
	for tries := 0; tries < 6; tries++ {
		if o := g.shadow.Clone().Apply(Op{K: "delete", S: StPeople, Id: id, Sys: true}, 0); o.OK {
			break
		}
		id = pick(g.r, ps)
	}
	sys := g.shadow.People[id].Sys
	mk := func() Op {
		op := Op{K: "create", S: pick(g.r, []string{StPeople, StPeople, StStaff, StPX}), Id: id}
		g.personFields(&op, id)
		op.Mentor = nil
		op.IsSys, op.Sys = false, g.r.IntN(6) == 0
		if op.S == StStaff {
			op.BadgeNo = pick(g.r, U.BadgeNos)
		}
		return op
	}
	del := Op{K: "delete", S: StPeople, Id: id, Sys: sys || g.r.IntN(5) == 0}
	tx := TxPlan{Mode: "update", Ops: []Op{del, mk(), {K: "delete", S: StPeople, Id: id, Sys: g.r.IntN(5) == 0}}}
	if g.r.IntN(2) == 0 {
		tx.Ops = append(tx.Ops, mk())
	}
	return tx, true
}

func (g *gen) genTx() TxPlan {
	tx := TxPlan{Mode: "update"}
	if g.r.Float64() < g.cfg.BatchRate {
		tx.Mode = "batch"
	} else if g.cfg.Profile == "tx" && g.r.IntN(12) == 0 {
		tx.Mode = "migrate" // the operations run as one step of MigrationManager.Migrate
	}
	if (g.cfg.Prop == "C05" || g.cfg.Prop == "C06") && g.r.IntN(12) == 0 {
		// link churn: the same pair is linked and unlinked (or the reverse) inside one transaction through the
		// single-link calls, from either side; often followed by the delete of one end
		ps, gs := keysOf(g.shadow.People), keysOf(g.shadow.Groups)
		if len(ps) > 0 && len(gs) > 0 {
			pid, gid := pick(g.r, ps), pick(g.r, gs)
			side, id, key := StPeople, pid, gid
			if g.r.IntN(2) == 0 {
				side, id, key = StGroups, gid, pid
			}
			ctx := TxPlan{Mode: tx.Mode}
			first, second := "addLink", "removeLink"
			if g.shadow.Links[pair{pid, gid}] && g.r.IntN(2) == 0 {
				first, second = "removeLink", "addLink"
			}
			ctx.Ops = append(ctx.Ops, Op{K: first, S: side, Id: id, Keys: []string{key}}, Op{K: second, S: side, Id: id, Keys: []string{key}})
			if g.r.IntN(3) == 0 {
				ctx.Ops = append(ctx.Ops, Op{K: first, S: side, Id: id, Keys: []string{key}})
			}
			if g.r.IntN(2) == 0 {
				if g.r.IntN(2) == 0 {
					ctx.Ops = append(ctx.Ops, Op{K: "delete", S: StGroups, Id: gid})
				} else {
					ctx.Ops = append(ctx.Ops, Op{K: "delete", S: StPeople, Id: pid, Sys: g.shadow.People[pid].Sys})
				}
			}
			saved := g.shadow
			g.shadow = saved.Clone()
			good := true
			for _, op := range ctx.Ops {
				if o := g.shadow.Apply(op, 0); !o.OK && !o.Skipped {
					good = false
					break
				}
			}
			if !good {
				g.shadow = saved
			}
			return ctx
		}
	}
	if (g.cfg.Prop == "C03" || g.cfg.Prop == "C06") && g.r.IntN(14) == 0 {
		if ctx, ok := g.churn(); ok {
			ctx.Mode = tx.Mode
			saved := g.shadow
			g.shadow = saved.Clone()
			good := true
			for _, op := range ctx.Ops {
				if o := g.shadow.Apply(op, 0); !o.OK && !o.Skipped {
					good = false
					break
				}
			}
			if !good {
				g.shadow = saved
			}
			return ctx
		}
	}
	if (g.cfg.Prop == "C04" || g.cfg.Prop == "C06") && g.r.IntN(6) == 0 {
		if btx, ok := g.cascadeBurst(); ok {
			btx.Mode = tx.Mode
			saved := g.shadow
			g.shadow = saved.Clone()
			good := true
			for _, op := range btx.Ops {
				if o := g.shadow.Apply(op, 0); !o.OK && !o.Skipped {
					good = false
					break
				}
			}
			if !good {
				g.shadow = saved
			}
			return btx
		}
	}
	if (g.cfg.Profile == "tx" || g.cfg.Profile == "txenum") && g.r.IntN(8) == 0 {
		tx.PreReg = pick(g.r, []string{"ok", "ok", "fail"})
		if g.cfg.Profile == "txenum" {
			tx.PreReg = "ok" // (the enumeration needs a body that commits when nothing is injected)
		}
	}
	switch g.r.IntN(16) {
	case 0:
		tx.Ctx = "nil"
	case 1, 2:
		tx.Ctx = "sys"
	case 3:
		tx.Ctx = "cancel"
	case 4, 5, 6:
		tx.Ctx = "reuse" // the task's previous context object, where that is unambiguous (see execWriteTx)
	}
	if tx.Mode == "migrate" {
		tx.Ctx, tx.PreReg = "", "" // Migrate makes its own context
	}
	n := 1 + g.r.IntN(g.cfg.MaxOps)
	// the shadow only guides argument choice; it assumes sequential execution of the plan as generated
	saved := g.shadow
	g.shadow = saved.Clone()
	ok := true
	for i := 0; i < n; i++ {
		// rejection sampling towards operations the shadow state accepts (bias only: the plan stays plain data)
		op := g.genOp()
		if g.valid() {
			for tries := 0; tries < 8; tries++ {
				if o := g.shadow.Clone().Apply(op, 0); o.OK {
					break
				}
				op = g.genOp()
			}
		}
		if (g.cfg.Profile == "tx" || g.cfg.Profile == "txenum") && g.r.IntN(8) == 0 {
			op.Nested = true // issued inside a nested Db.Update on the already bound context
			op.TxCtx = g.r.IntN(2) == 0
		}
		if tx.Ctx == "sys" {
			op.Sys = true
		}
		tx.Ops = append(tx.Ops, op)
		if o := g.shadow.Apply(op, 0); !o.OK && !o.Skipped {
			ok = false
			break
		}
	}
	if g.r.Float64() < g.cfg.FaultRate && len(g.cfg.Faults) > 0 {
		tx.Faults = append(tx.Faults, g.genFault(len(tx.Ops)))
		ok = false
	}
	if tx.PreReg == "fail" {
		ok = false
	}
	if !ok {
		g.shadow = saved
	}
	return tx
}

func defaultWeights(prop string) map[string]int {
	w := map[string]int{"create": 34, "update": 26, "delete": 14, "link": 14, "rc": 6, "deleteWhere": 2}
	switch prop {
	case "C03":
		w = map[string]int{"create": 38, "update": 40, "delete": 16, "link": 3, "rc": 1, "deleteWhere": 2}
	case "C04":
		w = map[string]int{"create": 38, "update": 26, "delete": 28, "link": 3, "rc": 1, "deleteWhere": 4}
	case "C05":
		w = map[string]int{"create": 24, "update": 10, "delete": 14, "link": 36, "rc": 16}
	case "C06":
		w = map[string]int{"create": 32, "update": 20, "delete": 26, "link": 14, "rc": 6, "deleteWhere": 5}
	case "conc":
		w = map[string]int{"create": 36, "update": 30, "delete": 12, "link": 16, "rc": 4, "deleteWhere": 2}
	case "C07", "C08":
		w = map[string]int{"create": 32, "update": 24, "delete": 16, "link": 10, "rc": 4, "deleteWhere": 2, "preCommit": 5, "commitAction": 7, "listen": 3, "updateCtx": 3}
	}
	return w
}

// GenPlan derives a plan from one integer.
func GenPlan(profile, prop string, seed uint64) *Plan {
	r := rand.New(rand.NewPCG(seed, 0xda3e39cb94b95bdb))
	cfg := GenCfg{Profile: profile, Prop: prop, Weights: defaultWeights(prop)}
	// swarm: every run draws its own sizes, validity bias, fault mix
	cfg.PValid = []float64{0.6, 0.8, 0.9, 0.97}[r.IntN(4)]
	cfg.MaxOps = 1 + r.IntN(5)
	cfg.Hostile = r.IntN(4) == 0
	switch profile {
	case "crud":
		cfg.Tasks = 1
		if r.IntN(4) == 0 {
			cfg.Tasks = 2
		}
		cfg.TxPerTask = 3 + r.IntN(23)
		cfg.FaultRate = []float64{0, 0, 0.05, 0.15}[r.IntN(4)]
		cfg.Faults = []string{"F1", "F5", "F6", "F7", "F3"}
		cfg.BatchRate = []float64{0, 0, 0.2}[r.IntN(3)]
		cfg.Reopen = []float64{0, 0.03, 0.1}[r.IntN(3)]
	case "tx":
		cfg.Tasks = 1 + r.IntN(4)
		cfg.TxPerTask = 2 + r.IntN(8)
		cfg.FaultRate = []float64{0, 0.1, 0.25, 0.4}[r.IntN(4)]
		all := []string{"F1", "F3", "F5", "F6", "F7"}
		// enabled fault kinds: random non-empty subset
		for _, f := range all {
			if r.IntN(2) == 0 {
				cfg.Faults = append(cfg.Faults, f)
			}
		}
		if len(cfg.Faults) == 0 {
			cfg.Faults = all
		}
		cfg.BatchRate = []float64{0, 0.3, 0.6, 1}[r.IntN(4)]
		cfg.Listeners = true
	case "snap", "conc":
		return genConcurrent(profile, prop, seed, r)
	case "integrity":
		cfg.Tasks = 1
		cfg.TxPerTask = 3 + r.IntN(12)
		cfg.PValid = []float64{0.9, 0.97}[r.IntN(2)]
		cfg.FaultRate = []float64{0, 0.05}[r.IntN(2)]
		cfg.Faults = []string{"F1", "F7"}
		cfg.Reopen = []float64{0, 0.05}[r.IntN(2)]
		cfg.Hostile = r.IntN(8) == 0
		cfg.Weights = map[string]int{"create": 50, "update": 20, "delete": 6, "link": 20, "rc": 4}
	case "txenum":
		// one task: a few fault-free set-up transactions, then the target transaction whose every failure
		// position x kind is enumerated by the C07 check
		cfg.Tasks = 1
		cfg.TxPerTask = 1 + r.IntN(6)
		cfg.PValid = 0.97
		cfg.Listeners = true
		cfg.Weights = map[string]int{"create": 44, "update": 20, "delete": 6, "link": 20, "rc": 10}
	default:
		panic("GenPlan: unknown profile " + profile)
	}
	g := &gen{r: r, cfg: cfg, shadow: NewModel()}
	g.shadow.PxMode = pxMode(int(seed>>7) & 63)
	p := &Plan{Profile: profile, Prop: prop, Seed: seed, Listeners: cfg.Listeners, Schema: int(seed>>7) & 63}
	if (prop == "C16" || profile == "tx") && r.IntN(14) == 0 {
		return g.sysBatchPlan(p)
	}
	for t := 0; t < cfg.Tasks; t++ {
		tp := TaskPlan{Name: fmt.Sprintf("T%d", t+1)}
		if t == 0 {
			tp.Txs = append(tp.Txs, g.prologue())
		}
		for i := 0; i < cfg.TxPerTask; i++ {
			if cfg.Reopen > 0 && r.Float64() < cfg.Reopen {
				tp.Txs = append(tp.Txs, TxPlan{Mode: "reopen"})
			}
			tp.Txs = append(tp.Txs, g.genTx())
		}
		p.Tasks = append(p.Tasks, tp)
	}
	if profile == "integrity" {
		nc := 0
		if r.IntN(7) != 0 {
			nc = 1 + r.IntN(6)
		}
		for i := 0; i < nc; i++ {
			p.Corrupt = append(p.Corrupt, Corruption{Class: pick(r, corruptionClasses), N: r.IntN(64)})
		}
	}
	if profile == "txenum" {
		g.cfg.Weights = defaultWeights("C07")
		delete(g.cfg.Weights, "preCommit") // F4 is enumerated explicitly
		g.cfg.PValid = []float64{0.85, 1}[r.IntN(2)]
		g.cfg.MaxOps = 1 + r.IntN(5)
		g.cfg.BatchRate = 0.3
		t := &p.Tasks[0]
		t.Txs = append(t.Txs, g.genTx())
	}
	p.MaxSteps = 40 + 12*p.NumOps()
	return p
}

// genConcurrent: writers committing multi-operation transactions, readers whose steps are separated by yields,
// and (snap profile) one task that snapshots, lets more transactions commit, restores, and asks for the timeline id.
func genConcurrent(profile, prop string, seed uint64, r *rand.Rand) *Plan {
	cfg := GenCfg{Profile: profile, Prop: prop, Weights: defaultWeights("conc")}
	cfg.PValid = []float64{0.9, 0.97}[r.IntN(2)]
	cfg.MaxOps = 2 + r.IntN(4)
	cfg.Hostile = r.IntN(6) == 0
	cfg.BatchRate = []float64{0, 0, 0.3}[r.IntN(3)]
	cfg.FaultRate = []float64{0, 0.08}[r.IntN(2)]
	cfg.Faults = []string{"F1", "F7"}
	g := &gen{r: r, cfg: cfg, shadow: NewModel()}
	g.shadow.PxMode = pxMode(int(seed>>7) & 63)
	p := &Plan{Profile: profile, Prop: prop, Seed: seed, Nonce: true, Schema: int(seed>>7) & 63}
	nw := 1 + r.IntN(2)
	if profile == "conc" {
		nw = 1
	}
	for w := 0; w < nw; w++ {
		tp := TaskPlan{Name: fmt.Sprintf("W%d", w+1)}
		if w == 0 {
			tp.Txs = append(tp.Txs, g.prologue())
		}
		n := 3 + r.IntN(8)
		for i := 0; i < n; i++ {
			tp.Txs = append(tp.Txs, g.genTx())
		}
		p.Tasks = append(p.Tasks, tp)
	}
	nr := 1 + r.IntN(3)
	if profile == "conc" {
		nr = 2 + r.IntN(5)
	}
	for k := 0; k < nr; k++ {
		tp := TaskPlan{Name: fmt.Sprintf("R%d", k+1)}
		n := 2 + r.IntN(5)
		for i := 0; i < n; i++ {
			tp.Txs = append(tp.Txs, TxPlan{Mode: "view", Ops: g.genReads(1 + r.IntN(5))})
		}
		p.Tasks = append(p.Tasks, tp)
	}
	if profile == "conc" {
		nh := 2 + r.IntN(2)
		for k := 0; k < nh; k++ {
			tp := TaskPlan{Name: fmt.Sprintf("H%d", k+1)}
			n := 1 + r.IntN(3)
			for i := 0; i < n; i++ {
				tp.Txs = append(tp.Txs, TxPlan{Mode: "helper", Ops: g.genHelpers(2 + r.IntN(5))})
			}
			p.Tasks = append(p.Tasks, tp)
		}
	}
	if profile == "snap" {
		// the snapshot task: starts with a snapshot, then a random script of further snapshots, restores (of the
		// latest or of any earlier snapshot, so the same snapshot is restored more than once), timeline-id requests
		// and idle scheduling points that let other tasks commit in between
		tp := TaskPlan{Name: "S"}
		snapTx := func() TxPlan {
			kind := pick(r, []string{"file", "file", "stream"})
			snap := TxPlan{Mode: "snapshot", Arg: kind, N: -1}
			if kind == "stream" && r.IntN(5) == 0 {
				snap.N = r.IntN(3) // F11: this write call of the stream fails
			}
			if kind == "file" {
				// a path of its own, the same path as other snapshots of this run (overwritten), or a DATE / TIME template
				// (two snapshots within one second of the simulated clock then expand to the same file)
				snap.Args = []string{pick(r, []string{"unique", "same", "same", "template", "nextToDb"})}
			}
			return snap
		}
		if r.IntN(3) == 0 {
			tp.Txs = append(tp.Txs, TxPlan{Mode: "timeline"})
		}
		tp.Txs = append(tp.Txs, snapTx())
		n := 2 + r.IntN(6)
		for i := 0; i < n; i++ {
			switch r.IntN(9) {
			case 0, 8:
				tp.Txs = append(tp.Txs, snapTx())
			case 1, 2, 3:
				rs := TxPlan{Mode: "restore", Arg: pick(r, []string{"bytes", "reader", "reader"}), N: -1}
				if r.IntN(3) == 0 {
					rs.N = r.IntN(4) // any earlier snapshot
				}
				if r.IntN(6) == 0 {
					rs.Args = []string{"fail"} // F11: reader fails mid-stream
					rs.Arg = "reader"
				}
				tp.Txs = append(tp.Txs, rs)
			case 4, 5:
				tp.Txs = append(tp.Txs, TxPlan{Mode: "timeline", Arg: pick(r, []string{"default", "default", "initIfEmpty", "forceReset"})})
			default:
				tp.Txs = append(tp.Txs, TxPlan{Mode: "idle", N: 1 + r.IntN(6)})
			}
		}
		p.Tasks = append(p.Tasks, tp)
		if r.IntN(2) == 0 {
			// a second client asking for the timeline id while snapshots are taken and restored
			tt := TaskPlan{Name: "T"}
			n := 1 + r.IntN(4)
			for i := 0; i < n; i++ {
				tt.Txs = append(tt.Txs, TxPlan{Mode: "idle", N: r.IntN(8)})
				tt.Txs = append(tt.Txs, TxPlan{Mode: "timeline", Arg: pick(r, []string{"default", "default", "initIfEmpty", "forceReset"})})
			}
			p.Tasks = append(p.Tasks, tt)
		}
		if r.IntN(4) == 0 {
			// a second client restoring earlier snapshots on its own: two restores may be in flight at once (one
			// writing its temp file or waiting for the lock while the other swaps the database)
			t2 := TaskPlan{Name: "S2"}
			n := 1 + r.IntN(3)
			for i := 0; i < n; i++ {
				t2.Txs = append(t2.Txs, TxPlan{Mode: "idle", N: 1 + r.IntN(10)})
				if r.IntN(3) == 0 {
					// ... or streaming a snapshot of its own (two streams may be in flight at once)
					t2.Txs = append(t2.Txs, TxPlan{Mode: "snapshot", Arg: "stream", N: -1})
					continue
				}
				t2.Txs = append(t2.Txs, TxPlan{Mode: "restore", Arg: pick(r, []string{"bytes", "reader", "reader"}), N: r.IntN(4)})
			}
			p.Tasks = append(p.Tasks, t2)
		}
	}
	if profile == "snap" {
		for ti := range p.Tasks {
			for xi := range p.Tasks[ti].Txs {
				if tx := &p.Tasks[ti].Txs[xi]; (tx.Mode == "view" || tx.Mode == "update" || tx.Mode == "batch") && r.IntN(3) == 0 {
					tx.Early = true
				}
			}
		}
	}
	p.MaxSteps = 120 + 16*p.NumOps()
	return p
}

// sysBatchPlan: a client that works through Db.Batch on a SYSTEM context (changing a system entity) while another
// client's Batch calls fail: when both land in one bbolt batch the first client's function is executed again, and
// must still run as system.
func (g *gen) sysBatchPlan(p *Plan) *Plan {
	t1 := TaskPlan{Name: "T1"}
	t1.Txs = append(t1.Txs, g.prologue())
	dept := keysOf(g.shadow.Depts)[0]
	id := pick(g.r, U.People[:4])
	mk := Op{K: "create", S: pick(g.r, []string{StPeople, StStaff, StPX}), Id: id, Name: "n1", Dept: dept, IsSys: true, Sys: true, BadgeNo: "bn1", Memo: "m1"}
	t1.Txs = append(t1.Txs, TxPlan{Mode: "update", Ops: []Op{mk}})
	g.shadow.Apply(mk, 0)
	n := 2 + g.r.IntN(4)
	for i := 0; i < n; i++ {
		up := Op{K: "update", S: mk.S, Id: id, Name: U.Names[(i+1)%len(U.Names)], Dept: dept, IsSys: true, Sys: true, BadgeNo: "bn1", Memo: "m1"}
		if g.r.IntN(3) == 0 {
			up.HasChk, up.Chk = true, []string{"name"}
		}
		t1.Txs = append(t1.Txs, TxPlan{Mode: "batch", Ctx: "sys", Ops: []Op{up}})
	}
	if g.r.IntN(2) == 0 {
		t1.Txs = append(t1.Txs, TxPlan{Mode: "batch", Ctx: "sys", Ops: []Op{{K: "delete", S: mk.S, Id: id, Sys: true}}})
	}
	p.Tasks = append(p.Tasks, t1)
	nt := 1 + g.r.IntN(2)
	for k := 0; k < nt; k++ {
		t := TaskPlan{Name: fmt.Sprintf("T%d", k+2)}
		m := 2 + g.r.IntN(4)
		for i := 0; i < m; i++ {
			tx := TxPlan{Mode: "batch", Ops: []Op{{K: "update", S: StGroups, Id: "no-such-group"}}}
			if g.r.IntN(3) == 0 {
				tx = TxPlan{Mode: "batch", Ops: []Op{{K: "create", S: StGroups, Id: pick(g.r, U.Groups[:3])}}, Faults: []Fault{{Kind: "F1", At: 1}}}
			}
			t.Txs = append(t.Txs, tx)
		}
		p.Tasks = append(p.Tasks, t)
	}
	p.MaxSteps = 80 + 16*p.NumOps()
	return p
}
