package dsim

// One simulated run = execute(plan) inside a synctest bubble: real boltz + real (patched copy of) bbolt on a real
// file on tmpfs, simulated clock / scheduler / uuid randomness, faults from the plan.

import (
	"context"
	"encoding/hex"
	"errors"
	"fmt"
	"io"
	"math/rand/v2"
	"os"
	"sort"
	"strings"
	"sync"
	"sync/atomic"
	"testing"
	"testing/synctest"
	"time"

	"github.com/google/uuid"
	"github.com/openziti/storage/boltz"
	"github.com/sirupsen/logrus"
	"go.etcd.io/bbolt"
	"go.etcd.io/bbolt/simseam"
	gofail "go.etcd.io/gofail/runtime"
)

var errInjected = errors.New("dsim: injected failure")

type injectedPanic struct{}

type RunResult struct {
	Seed       uint64         `json:"seed"`
	Prop       string         `json:"prop"`
	Profile    string         `json:"profile"`
	Violations []Violation    `json:"violations,omitempty"`
	HarnessErr string         `json:"harnessErr,omitempty"`
	Outcome    string         `json:"outcome,omitempty"`
	Steps      int            `json:"steps"`
	Trace      []string       `json:"trace,omitempty"`
	Interleave uint64         `json:"interleave"`
	Multi      bool           `json:"multi"`
	States     []uint64       `json:"states,omitempty"`
	Trans      map[string]int `json:"trans,omitempty"`
	FaultsConf map[string]int `json:"faultsConf,omitempty"`
	FaultsHit  map[string]int `json:"faultsHit,omitempty"`
	Probes     map[string]int `json:"probes,omitempty"`
	SimTimeNs  int64          `json:"simTimeNs"`
	Commits    int            `json:"commits"`
	Aborts     int            `json:"aborts"`
	Ops        int            `json:"ops"`
	Attempts   []AttemptInfo  `json:"attempts,omitempty"` // RecordKeys: per executed body: touched (site,key) pairs and expected events (C07 enumeration)
	Log        []string       `json:"log,omitempty"`
}

type AttemptInfo struct {
	Tx      string   `json:"tx"`
	Touched []string `json:"touched"`
	Events  []Ev     `json:"events"`
	Done    bool     `json:"done"`
}

type btxState struct {
	id        int
	working   *Model
	committed bool
	attempts  []*attempt
	armed     []string
	pendingFP []string
	nonce     string
}

type attempt struct {
	tr        *txRun
	btx       *btxState
	running   bool
	events    []Ev
	deleted   []IdRef
	commits   []string
	pres      []string // tags of the pre-commit actions this attempt registered
	preRegRan int      // executions, during this attempt, of the action registered on the context BEFORE the call
	mustFail  string   // why the transaction is bound to fail ("" = it should commit)
	rejectWhy string
	firedOp   string // fault fired during the current op
	seen      map[string]int
	touched   map[string]bool
	usedF     map[int]bool
	done      bool // body returned
}

type txRun struct {
	id       string
	task     *Task
	plan     *TxPlan
	ctx      boltz.MutateContext
	attempts []*attempt
	onBody   func()
}

type ExecOpt struct {
	Log        bool
	RecordKeys bool // record touched (site,key) per transaction (C07 enumeration pass)
	AllViews   bool // evaluate the C15 view oracle after every commit
}

type Run struct {
	plan *Plan
	opt  ExecOpt
	s    *Sched
	dir  string
	path string
	db   *boltz.DbImpl
	st   *Stores

	mu         sync.Mutex
	late       map[string]*lateListener
	committed  *Model
	btx        *btxState
	nbtx       int
	ended      []*btxState
	active     *attempt
	lastDump   *Dump
	ledger     *Ledger
	viols      []Violation
	ctxTx      map[boltz.MutateContext]*txRun
	migVersion int                            // version of component "dsim" after the last successful Migrate
	taskCtx    map[string]boltz.MutateContext // the context a task may reuse for its next call (only after a plain transaction)
	everDel    map[IdRef]bool
	pendTrace  []IdRef
	forceChk   bool
	res        *RunResult
	start      time.Time
	txSeq      int

	// snap / conc profiles
	openViews            int
	committedNonce       string
	meta                 metaModel
	snaps                []*snapRec
	restoring            map[string]*pendingRestore // by task: restores that have been called and have not returned
	expectRestored       *snapRec
	restores             int
	restoreListenerCalls int
	restoreListenerN     [3]int // calls per listener: three listeners made from one function literal
	tlCounter            int
	helperExp            map[string]string
	helperSeen           map[string][]string
	abortFromHook        bool
	degraded             bool // a violation of another property was recorded; the run continues
	hist                 []histOp
}

var runCounter atomic.Int64

type seededReader struct {
	mu sync.Mutex
	r  *rand.Rand
}

func (s *seededReader) Read(p []byte) (int, error) {
	s.mu.Lock()
	defer s.mu.Unlock()
	for i := range p {
		p[i] = byte(s.r.Uint32())
	}
	return len(p), nil
}

func init() {
	logrus.SetOutput(io.Discard)
	logrus.SetLevel(logrus.PanicLevel)
	// A write transaction must never have to re-mmap: it would wait (for real) for read transactions that the
	// simulator has parked.
	bbolt.DefaultOptions.InitialMmapSize = 64 << 20
}

// Execute runs one plan in a fresh bubble.
func Execute(t *testing.T, plan *Plan, opt ExecOpt) (res *RunResult) {
	if curPlanFile != "" {
		_ = SavePlan(curPlanFile, plan) // left for the driver: a crash of the whole process belongs to this plan
	}
	res = &RunResult{Seed: plan.Seed, Prop: plan.Prop, Profile: plan.Profile}
	defer func() {
		boltz.SimHook = nil
		simseam.Hook = nil
		if p := recover(); p != nil {
			res.HarnessErr = fmt.Sprintf("bubble panic: %v", p)
		}
	}()
	// own sub-test: a -race binary fails (FailNow) the test in which a race was reported; that must not end the worker
	t.Run("run", func(t *testing.T) {
		defer func() {
			if p := recover(); p != nil {
				res.HarnessErr = fmt.Sprintf("bubble panic: %v", p)
			}
		}()
		synctest.Test(t, func(t *testing.T) {
			r := &Run{plan: plan, opt: opt, res: res}
			r.run()
		})
	})
	return res
}

func (r *Run) logf(format string, args ...any) {
	if r.opt.Log {
		r.mu.Lock()
		r.res.Log = append(r.res.Log, fmt.Sprintf(format, args...))
		r.mu.Unlock()
	}
}

// violate records a violation. A violation of the property under check (or any violation in the concurrent
// profiles) ends the run: it returns true and the caller unwinds. A violation that only other properties state is
// recorded and the run goes on, so that the check can still see what that defect does to ITS property later in the
// history (on code where every property holds nothing is ever recorded, so this cannot raise a false alarm).
func (r *Run) violate(v Violation) bool {
	r.mu.Lock()
	own := v.Has(r.plan.Prop) || r.plan.Profile == "snap" || r.plan.Profile == "conc" || r.plan.Prop == ""
	if !own {
		for _, e := range r.viols {
			if e.Sig == v.Sig {
				r.mu.Unlock()
				return false
			}
		}
		if len(r.viols) < 40 {
			r.viols = append(r.viols, v)
		}
		r.degraded = true
		r.mu.Unlock()
		return false
	}
	r.viols = append(r.viols, v)
	r.mu.Unlock()
	r.s.Abort("violation")
	return true
}

func (r *Run) bump(m *map[string]int, k string) {
	r.mu.Lock()
	if *m == nil {
		*m = map[string]int{}
	}
	(*m)[k]++
	r.mu.Unlock()
}

func (r *Run) probe(k string) { r.bump(&r.res.Probes, k) }

func (r *Run) open() error {
	db, err := boltz.Open(r.path, rootBucket)
	if err != nil {
		return err
	}
	r.db = db
	r.s.mu.Lock()
	r.s.mainDb = db
	r.s.mu.Unlock()
	for k := 0; k < 3; k++ {
		k := k
		// several components subscribing with the same piece of code (closures of one literal)
		db.AddRestoreListener(func() {
			defer r.s.AsyncDone()
			r.s.AsyncEnter(fmt.Sprintf("async:restore-listener%d", k))
			r.mu.Lock()
			if k == 0 {
				r.restoreListenerCalls++
			}
			r.restoreListenerN[k]++
			r.mu.Unlock()
		})
	}
	db.AddTxCompleteListener(func(ctx boltz.MutateContext) {
		r.mu.Lock()
		tr := r.ctxTx[ctx]
		r.mu.Unlock()
		if tr != nil {
			r.ledger.mu.Lock()
			r.ledger.TxComplete[tr.id]++
			r.ledger.mu.Unlock()
		}
	})
	return nil
}

func (r *Run) run() {
	res := r.res
	r.start = time.Now()
	r.dir = fmt.Sprintf("/dev/shm/dsim-%d-%d", os.Getpid(), runCounter.Add(1))
	_ = os.RemoveAll(r.dir)
	if err := os.MkdirAll(r.dir, 0700); err != nil {
		res.HarnessErr = err.Error()
		return
	}
	defer os.RemoveAll(r.dir)
	r.path = r.dir + "/db"
	uuid.SetRand(&seededReader{r: rand.New(rand.NewPCG(r.plan.Seed, 0x5851f42d4c957f2d))})
	r.committed = NewModel()
	r.committed.PxMode = pxMode(r.plan.Schema)
	r.ledger = NewLedger()
	r.ctxTx = map[boltz.MutateContext]*txRun{}
	r.everDel = map[IdRef]bool{}
	maxSteps := r.plan.MaxSteps
	if maxSteps == 0 {
		maxSteps = 400
	}
	var replay []string
	if r.plan.Sched != nil {
		replay = r.plan.Sched
	}
	r.s = NewSched(r.plan.Seed^0xa0761d6478bd642f, replay, maxSteps)
	r.s.mainPath = r.path
	r.s.Windows = r.plan.Profile == "conc"
	r.s.YieldAtRUnlock = r.plan.Profile == "snap"
	extraBase = nil
	if r.plan.Schema&32 != 0 {
		extraBase = []string{"base2"}
	}
	r.st = NewStores(r.plan.Schema)
	if r.plan.Listeners {
		registerListeners(r, StDepts, boltz.EntityStore[*Dept](r.st.Depts))
		registerListeners(r, StPeople, boltz.EntityStore[*Person](r.st.People))
		registerListeners(r, StStaff, boltz.EntityStore[*Staff](r.st.Staff))
		registerListeners(r, StPX, boltz.EntityStore[*PX](r.st.PX))
		registerListeners(r, StBadges, boltz.EntityStore[*Badge](r.st.Badges))
		registerListeners(r, StNotes, boltz.EntityStore[*Note](r.st.Notes))
		registerListeners(r, StTickets, boltz.EntityStore[*Ticket](r.st.Tickets))
		registerListeners(r, StReviews, boltz.EntityStore[*Review](r.st.Reviews))
		registerListeners(r, StFolders, boltz.EntityStore[*Folder](r.st.Folders))
		registerListeners(r, StDesks, boltz.EntityStore[*Desk](r.st.Desks))
		registerListeners(r, StGroups, boltz.EntityStore[*Group](r.st.Groups))
		registerListeners(r, StMemos, boltz.EntityStore[*Memo](r.st.Memos))
	}
	if err := r.open(); err != nil {
		res.HarnessErr = "open: " + err.Error()
		return
	}
	closed := false
	defer func() {
		if !closed {
			defer func() { _ = recover() }() // (a database that a failed restore left unusable was reported already)
			_ = r.db.Close()
		}
	}()
	var err error
	var setupPanic any
	func() {
		defer func() {
			if p := recover(); p != nil {
				if !libraryPanic() {
					panic(p)
				}
				setupPanic = p
			}
		}()
		err = r.db.Update(nil, func(ctx boltz.MutateContext) error {
			// (required set-up: a set index refuses to work on a database whose index buckets were never initialised)
			holder := boltz.ErrBucket(nil)
			r.st.InitIndexes(ctx.Tx(), holder)
			return holder.GetError()
		})
	}()
	if setupPanic != nil {
		// the very first Db.Update of a fresh database panicked inside the library: a verdict for C07 (a failure that
		// did not reach the caller as an error); for every other property's check there is nothing left to explore
		r.viols = append(r.viols, Violation{Props: []string{"C07"}, Oracle: "tx", Sig: "panic-in-transaction:setup",
			Detail: fmt.Sprintf("Db.Update(nil, InitializeIndexes) on a fresh database panicked inside the library: %v", setupPanic)})
		res.Violations = r.viols
		if r.plan.Prop != "C07" {
			res.HarnessErr = fmt.Sprintf("set-up transaction panicked inside the library: %v", setupPanic)
		}
		return
	}
	if err != nil {
		res.HarnessErr = "init indexes: " + err.Error()
		return
	}
	_ = r.db.View(func(tx *bbolt.Tx) error {
		r.lastDump = TakeDump(tx)
		// somebody in the process has used a filter that negates a constant (whatever parsing does with it must
		// stay inside that query)
		if ids, _, err := r.st.People.QueryIds(tx, "not true"); err == nil && len(ids) != 0 {
			r.viols = append(r.viols, Violation{Props: []string{"C15", "C18"}, Oracle: "views", Sig: "query-not-true", Detail: fmt.Sprintf("people.QueryIds(not true) on an empty store returned %q", ids)})
		}
		return nil
	})
	if !r.profileSetup() {
		return
	}

	// hooks on
	r.s.onRw = r.onRw
	r.s.onSeam = r.onSeam
	r.s.onQuiescent = r.onQuiescent
	r.s.onRestore = func(point, task string) {
		r.onRestore(point, task)
		r.mu.Lock()
		ab := r.abortFromHook
		r.mu.Unlock()
		if ab {
			r.s.Abort("violation")
			panic(abortSig{})
		}
	}
	boltz.SimHook = r.s.SimHook
	simseam.Hook = r.s.SeamHook

	for i := range r.plan.Tasks {
		tp := &r.plan.Tasks[i]
		r.s.Spawn(tp.Name, func(t *Task) {
			for j := range tp.Txs {
				r.execTx(t, j, &tp.Txs[j])
			}
		})
	}
	r.s.Loop()

	boltz.SimHook = nil
	simseam.Hook = nil
	for _, fp := range []string{"beforeWriteMetaError", "lackOfDiskSpace", "beforeSyncDataPages", "beforeSyncMetaPage", "resizeFileError"} {
		_ = gofail.Disable(fp)
	}

	res.Steps = r.s.Steps
	res.Trace = r.s.Trace
	res.Interleave, res.Multi = r.s.Interleaving()
	res.Outcome = r.s.Outcome
	res.SimTimeNs = int64(time.Since(r.start))
	if r.s.NestedRLockP > 0 {
		r.probe("rlock_requested_while_restore_pending")
	}
	if r.s.WindowsOpened > 0 {
		r.bump(&r.res.Probes, "race_windows_opened")
	}
	if r.s.RestoreWaited > 0 {
		r.probe("restore_waited_for_open_tx")
	}
	if r.s.harnessErr != "" {
		res.HarnessErr = r.s.harnessErr
	}
	if res.HarnessErr == "" && !r.hasOwn() {
		switch {
		case strings.HasPrefix(res.Outcome, "deadlock"):
			r.viols = append(r.viols, r.deadlockViolation(res.Outcome))
		case res.Outcome == "budget":
			res.HarnessErr = "step budget exhausted"
		}
	}
	if res.HarnessErr == "" && !r.hasOwn() && res.Outcome == "" {
		r.finalChecks()
	}
	if r.degraded && res.HarnessErr != "" {
		// the harness tripped over a state it does not model after another property had already been violated:
		// not harness trouble, the run simply ends there
		res.HarnessErr = ""
	}
	res.Violations = r.viols
	closed = true
	func() {
		defer func() {
			// only a run that already reported the database unusable (a restore that went wrong) gets here with a
			// handle that cannot be closed
			if p := recover(); p != nil && len(r.viols) == 0 {
				panic(p)
			}
		}()
		if err := r.db.Close(); err != nil && res.HarnessErr == "" {
			res.HarnessErr = "close: " + err.Error()
		}
	}()
}

func (r *Run) hasOwn() bool {
	r.mu.Lock()
	defer r.mu.Unlock()
	for _, v := range r.viols {
		if v.Has(r.plan.Prop) || r.plan.Profile == "snap" || r.plan.Profile == "conc" {
			return true
		}
	}
	return false
}

func (r *Run) deadlockViolation(desc string) Violation {
	return Violation{Props: []string{"C17", "C18"}, Oracle: "liveness", Sig: "deadlock", Detail: desc}
}

// ---------- hooks ----------

func (r *Run) onRw(ev string) {
	if ev == "acquired" && r.s.ReloadHeld() {
		// a write transaction begins on the live database while a restore holds the reload lock: the restore is
		// about to close that database under it
		r.violate(Violation{Props: []string{"C17"}, Oracle: "snapshot", Sig: "tx-started-while-restore-holds-lock",
			Detail: "a write transaction began while the restore held the reload lock"})
	}
	r.mu.Lock()
	defer r.mu.Unlock()
	switch ev {
	case "acquired":
		r.nbtx++
		r.btx = &btxState{id: r.nbtx, working: r.committed.Clone()}
	case "commit.begin":
		if r.btx != nil {
			for _, fp := range r.btx.pendingFP {
				if err := gofail.Enable(fp, `return("dsim injected commit failure")`); err != nil {
					r.s.HarnessError("gofail enable " + fp + ": " + err.Error())
					continue
				}
				r.btx.armed = append(r.btx.armed, fp)
			}
			r.btx.pendingFP = nil
		}
	case "committed":
		if r.btx != nil {
			r.btx.committed = true
		}
	case "released":
		b := r.btx
		r.btx = nil
		if b == nil {
			return
		}
		for _, fp := range b.armed {
			_ = gofail.Disable(fp)
		}
		if b.committed {
			r.committed = b.working
			if b.nonce != "" {
				r.committedNonce = b.nonce
			}
			r.res.Commits++
			for _, a := range b.attempts {
				if !a.done {
					// a body that did not finish cannot be part of a committed transaction
					r.viols = append(r.viols, Violation{Props: []string{"C07"}, Oracle: "tx", Sig: "commit-with-unfinished-body", Detail: "transaction " + a.tr.id + " committed although its body had not returned"})
					continue
				}
				r.ledger.Expect(a.events)
				// a listener registered while an earlier or this very transaction was in flight is registered when
				// this change commits: it is owed the event like every other listener of the store
				for _, l := range r.late {
					if l.btx <= b.id {
						r.ledger.ExpectLate(l, a.events)
					}
				}
				r.ledger.mu.Lock()
				for _, tag := range a.commits {
					r.ledger.expCommit[tag]++
				}
				for _, tag := range a.pres {
					r.ledger.expPre[tag]++
				}
				if a.tr.plan.PreReg != "" && a.tr.plan.Ctx != "nil" {
					r.ledger.expCommit["prereg:"+a.tr.id]++
				}
				if a.tr.plan.PreReg != "" && a.tr.plan.Ctx != "nil" && a.preRegRan != 1 {
					r.viols = append(r.viols, Violation{Props: []string{"C07"}, Oracle: "tx", Sig: "pre-commit-action-count",
						Detail: fmt.Sprintf("%s committed, but the pre-commit action registered on its context before the call ran %d time(s) during the committed execution", a.tr.id, a.preRegRan)})
				}
				if a.tr.plan.Mode == "update" {
					r.ledger.expTxDone[a.tr.id]++
				} else {
					r.ledger.optTxDone[a.tr.id]++
				}
				r.ledger.mu.Unlock()
				for _, d := range a.deleted {
					r.everDel[d] = true
					r.pendTrace = append(r.pendTrace, d)
				}
			}
		} else {
			r.res.Aborts++
		}
		r.ended = append(r.ended, b)
	}
}

func (r *Run) onSeam(site string, key []byte) error {
	r.mu.Lock()
	a := r.active
	if a == nil || !a.running {
		r.mu.Unlock()
		return nil
	}
	k := site + ":" + hex.EncodeToString(key)
	a.seen[k]++
	if r.opt.RecordKeys {
		a.touched[k] = true
	}
	var hit *Fault
	for i := range a.tr.plan.Faults {
		f := &a.tr.plan.Faults[i]
		if f.Kind != "F6" || a.usedF[i] {
			continue
		}
		nth := f.Nth
		if nth <= 0 {
			nth = 1
		}
		if f.Site == site && f.Key == hex.EncodeToString(key) && a.seen[k] == nth {
			a.usedF[i] = true
			hit = f
			break
		}
	}
	if hit != nil {
		a.firedOp = "F6"
		a.mustFail = "F6"
	}
	r.mu.Unlock()
	if hit != nil {
		r.bump(&r.res.FaultsHit, "F6")
		return flavoured(hit.Flavour, fmt.Sprintf("dsim: injected storage error at %s(%q)", site, key))
	}
	return nil
}

// veto is consulted by the constraints' ProcessPreCommit (fault kind F3).
func (r *Run) veto(store, change, id string, typed bool) error {
	r.mu.Lock()
	a := r.active
	if a == nil || !a.running {
		r.mu.Unlock()
		return nil
	}
	var hit *Fault
	for i := range a.tr.plan.Faults {
		f := &a.tr.plan.Faults[i]
		if f.Kind != "F3" || a.usedF[i] {
			continue
		}
		if f.Store == store && f.Change == change && (f.Id == "" || f.Id == id) && f.Typed == typed {
			a.usedF[i] = true
			hit = f
			break
		}
	}
	if hit != nil {
		a.firedOp = "F3"
		a.mustFail = "F3"
	}
	r.mu.Unlock()
	if hit != nil {
		r.bump(&r.res.FaultsHit, "F3")
		return flavoured(hit.Flavour, fmt.Sprintf("dsim: injected constraint veto (%s %s %q)", store, change, id))
	}
	return nil
}

// flavoured builds the injected error of an F3 / F6 fault: plain, or one of the library's own error types.
func flavoured(flavour, msg string) error {
	switch flavour {
	case "notfound":
		return fmt.Errorf("%s: %w", msg, boltz.NewNotFoundError("injected", "id", "dsim-injected"))
	case "dup":
		return fmt.Errorf("%s: %w", msg, &boltz.UniqueIndexDuplicateError{Field: "injected", Value: "dsim-injected", EntityType: "injected"})
	case "refexists":
		return fmt.Errorf("%s: %w", msg, boltz.NewReferenceByIdError("injected", "dsim-injected", "injected", "dsim-injected", "injected"))
	}
	return errors.New(msg)
}

func (r *Run) recordEvent(listener, store, typ string, e boltz.Entity) {
	r.mu.Lock()
	during := r.active != nil && r.active.running
	r.mu.Unlock()
	id := ""
	snap := snapEntity(store, e)
	if snap != "<nil>" {
		id = e.GetId()
	}
	r.ledger.record(LedgerEntry{Listener: listener, Store: store, Type: typ, Id: id, Snap: snap, Seq: r.s.NextSeq(), DuringBody: during})
}

func (r *Run) recordIdEvent(listener, store, typ, id string) {
	r.mu.Lock()
	during := r.active != nil && r.active.running
	r.mu.Unlock()
	r.ledger.record(LedgerEntry{Listener: listener, Store: store, Type: typ, Id: id, Snap: "id", Seq: r.s.NextSeq(), DuringBody: during})
}

// ---------- quiescence: state oracles ----------

func (r *Run) onQuiescent() {
	r.mu.Lock()
	ended := r.ended
	force := r.forceChk
	if len(ended) == 0 && !force {
		r.mu.Unlock()
		return
	}
	r.mu.Unlock()
	if r.s.ReloadBusy() {
		return // postponed: the oracle's read transaction would queue behind the pending restore
	}
	r.mu.Lock()
	r.ended = nil
	r.forceChk = false
	committed := r.committed
	trace := r.pendTrace
	r.pendTrace = nil
	last := r.lastDump
	r.mu.Unlock()
	anyCommitted := force
	for _, b := range ended {
		if b.committed {
			anyCommitted = true
		}
	}
	var found []Violation
	err := viewGuarded(r.db, func(tx *bbolt.Tx) error {
		d := TakeDump(tx)
		if !anyCommitted {
			if d.Hash != last.Hash {
				props := map[string]bool{"C07": true}
				var why []string
				for _, b := range ended {
					for _, a := range b.attempts {
						why = append(why, a.mustFail)
						for _, p := range propsForReject(a.rejectWhy) {
							props[p] = true
						}
					}
				}
				found = append(found, Violation{Props: sortedKeys(props), Oracle: "rollback", Sig: "failed-tx-changed-state",
					Detail: fmt.Sprintf("a transaction that failed (%s) left the database changed:\n   %s", strings.Join(why, ","), strings.Join(DiffDumps(last, d, 12), "\n   "))})
			}
			return nil
		}
		r.mu.Lock()
		r.res.States = append(r.res.States, d.Hash)
		if traceHooks {
			tracef("TRACE quiescent dump=%x txsize=%d txid=%d\n", d.Hash, tx.Size(), tx.ID())
		}
		r.lastDump = d
		restored := r.expectRestored
		r.expectRestored = nil
		r.mu.Unlock()
		if restored != nil {
			if v := checkRestoredDump(restored, d); v != nil {
				found = append(found, *v)
			}
		}
		found = append(found, guardOracle("mirror", []string{"C03", "C04", "C05"}, func() []Violation { return Mirror(tx, r.st) })...)
		found = append(found, guardOracle("model", []string{"C03", "C04", "C05", "C06", "C15", "C16"}, func() []Violation { return CompareModel(tx, r.st, committed, U.ByStore()) })...)
		hadChild := map[string]bool{}
		for _, ref := range trace {
			if strings.HasPrefix(ref.Store, "child:") {
				hadChild[ref.Id] = true
			}
		}
		for _, ref := range trace {
			if strings.HasPrefix(ref.Store, "child:") {
				continue
			}
			if committed.snapOf(ref.Store, ref.Id) == "" {
				if sharedId(ref.Id) && committed.idInAnyStore(ref.Id) {
					continue // another store's entity legitimately carries the same id: "occurs nowhere" is not expected
				}
				if ref.Store == StPeople && hadChild[ref.Id] {
					found = append(found, NoTrace(tx, ref.Id, "C15")...) // both parts, and everything the parent's constraints and links kept
				} else {
					found = append(found, NoTrace(tx, ref.Id)...)
				}
			}
		}
		if r.opt.AllViews || r.plan.Prop == "C15" {
			found = append(found, guardOracle("views", []string{"C15"}, func() []Violation { return ChildViews(tx, r.st, committed, U.Names, U.Roles) })...)
		}
		return nil
	})
	if err != nil {
		r.mu.Lock()
		restoreInvolved := len(r.restoring) > 0 || r.restores > 0
		r.mu.Unlock()
		if restoreInvolved {
			// a read transaction started while no restore holds the lock must see the old or the new database
			r.violate(Violation{Props: []string{"C17"}, Oracle: "snapshot", Sig: "view-fails-around-restore",
				Detail: "a read transaction begun while the restore did not hold the reload lock failed: " + err.Error()})
			return
		}
		r.s.HarnessError("oracle view: " + err.Error())
		r.s.Abort("harness-error")
		return
	}
	if len(found) > 0 {
		stop := false
		for _, v := range found {
			if r.violate(v) {
				stop = true
			}
		}
		_ = stop
	}
}

func sortedKeys(m map[string]bool) []string {
	var r []string
	for k := range m {
		r = append(r, k)
	}
	sort.Strings(r)
	return r
}

// propsForReject maps the model's rejection rule to the property that states it.
func propsForReject(why string) []string {
	set := map[string]bool{}
	for _, w := range strings.Split(why, "+") {
		switch {
		case w == "":
		case strings.HasPrefix(w, "name-"), strings.HasPrefix(w, "nick-"), strings.HasPrefix(w, "role-"):
			set["C03"] = true
		case strings.HasPrefix(w, "badgeNo-"), strings.HasPrefix(w, "memo-"): // (memo-dup, memo-empty)
			set["C03"] = true
			set["C15"] = true
		case strings.HasPrefix(w, "dept-"), strings.HasPrefix(w, "mentor-"), strings.HasPrefix(w, "owner-"), strings.HasPrefix(w, "ref-"), strings.HasPrefix(w, "ticket-"), strings.HasPrefix(w, "review-"), strings.HasPrefix(w, "desk-"), strings.HasPrefix(w, "sponsor-"):
			set["C04"] = true
		case strings.HasPrefix(w, "group-"), strings.HasPrefix(w, "link-"), strings.HasPrefix(w, "rc-"):
			set["C05"] = true
		case strings.HasPrefix(w, "sys-"):
			set["C16"] = true
			if w == "sys-delete-cascade" {
				set["C04"] = true
			}
		case w == "absent-child":
			set["C15"] = true
		}
	}
	return sortedKeys(set)
}

// ---------- tasks ----------

func (r *Run) execTx(t *Task, idx int, tx *TxPlan) {
	switch tx.Mode {
	case "update", "batch", "migrate":
		r.execWriteTx(t, idx, tx)
	case "reopen":
		r.execReopen(t)
	default:
		if !r.execProfileTx(t, idx, tx) {
			panic("unknown tx mode " + tx.Mode)
		}
	}
}

func (r *Run) execReopen(t *Task) {
	t.Yield("reopen", NeedExclusive)
	r.probe("reopen")
	if err := r.db.Close(); err != nil {
		r.s.HarnessError("reopen close: " + err.Error())
		panic(abortSig{})
	}
	if err := r.open(); err != nil {
		r.s.HarnessError("reopen open: " + err.Error())
		panic(abortSig{})
	}
	r.mu.Lock()
	r.forceChk = true
	r.mu.Unlock()
}

func (r *Run) execWriteTx(t *Task, idx int, tx *TxPlan) {
	need := NeedWriter
	if tx.Mode == "batch" {
		need = NeedRLock
	}
	if tx.Early {
		// enter the call whatever the reload lock's state is: it queues inside the library (hook "blocked.rlock") and
		// must resume only when it can also get bbolt's writer lock
		if tx.Mode == "batch" {
			need = NeedNone
			r.s.HintBlockedNeed(t.Name, NeedRLock)
		} else {
			need = NeedBoltWriter
			r.s.HintBlockedNeed(t.Name, NeedWriter)
		}
	}
	t.Yield("tx.begin", need)
	goCtx, cancel := context.WithCancel(context.Background())
	defer cancel()
	ctx := boltz.NewMutateContext(goCtx)
	plainTx := tx.PreReg == "" // no actions, no derived contexts: the context object comes out as it went in
	for _, op := range tx.Ops {
		if op.K == "commitAction" || op.K == "preCommit" || op.K == "updateCtx" {
			plainTx = false
		}
	}
	if tx.Ctx == "reuse" {
		// a client that keeps one MutateContext for its consecutive calls (a retry loop after a failure, say)
		r.mu.Lock()
		if prev := r.taskCtx[t.Name]; prev != nil && plainTx {
			ctx = prev
			if r.res.Probes == nil {
				r.res.Probes = map[string]int{}
			}
			r.res.Probes["context_reused"]++
		}
		r.mu.Unlock()
	}
	defer func() {
		r.mu.Lock()
		if r.taskCtx == nil {
			r.taskCtx = map[string]boltz.MutateContext{}
		}
		if plainTx && (tx.Ctx == "" || tx.Ctx == "reuse") {
			r.taskCtx[t.Name] = ctx
		} else {
			delete(r.taskCtx, t.Name)
		}
		r.mu.Unlock()
	}()
	callCtx := ctx
	switch tx.Ctx {
	case "nil":
		callCtx = nil
	case "sys":
		ctx = ctx.GetSystemContext()
		callCtx = ctx
	}
	tr := &txRun{id: fmt.Sprintf("%s.%d", t.Name, idx), task: t, plan: tx, ctx: ctx}
	r.mu.Lock()
	r.ctxTx[ctx] = tr
	for _, f := range tx.Faults {
		if r.res.FaultsConf == nil {
			r.res.FaultsConf = map[string]int{}
		}
		r.res.FaultsConf[f.Kind]++
	}
	r.mu.Unlock()
	if tx.PreReg != "" && callCtx != nil {
		callCtx.AddPreCommitAction(func(boltz.MutateContext) error {
			r.mu.Lock()
			cur := tr.attempts[len(tr.attempts)-1]
			cur.preRegRan++
			if tx.PreReg == "fail" {
				cur.mustFail = "F4"
			}
			r.mu.Unlock()
			if tx.PreReg == "fail" {
				r.bump(&r.res.FaultsHit, "F4")
				return errInjected
			}
			return nil
		})
		if tx.PreReg == "fail" {
			r.bump(&r.res.FaultsConf, "F4")
		}
		// ... and a commit action, also before the call: it belongs to the one transaction the call commits
		preTag := "prereg:" + tr.id
		callCtx.AddCommitAction(func() {
			defer r.s.AsyncDone()
			r.s.AsyncEnter("async:commit:" + preTag)
			r.ledger.mu.Lock()
			r.ledger.CommitActs[preTag]++
			r.ledger.mu.Unlock()
		})
	}
	body := func(ctx boltz.MutateContext) error {
		err := r.body(tr, ctx)
		if tx.Ctx == "cancel" {
			// the caller's context.Context is cancelled while the transaction function is still running (a request
			// that timed out): the transaction commits all the same, and what commits is owed its callbacks
			cancel()
		}
		return err
	}
	var err error
	panicked := false
	var callSeq uint64
	func() {
		defer func() {
			if p := recover(); p != nil {
				if _, ok := p.(injectedPanic); ok {
					panicked = true
					err = errInjected
					return
				}
				if _, ok := p.(abortSig); !ok && libraryPanic() {
					// the library itself panicked somewhere between the caller and the commit (not inside a store
					// operation, those are caught per operation): the failure did not reach the caller as an error
					if r.violate(Violation{Props: []string{"C07"}, Oracle: "tx", Sig: "panic-in-transaction:" + tx.Mode,
						Detail: fmt.Sprintf("%s.%d (%s): the library panicked outside any store operation: %v", t.Name, idx, tx.Mode, p)}) {
						panic(abortSig{})
					}
					panicked = true
					err = fmt.Errorf("library panic: %v", p)
					return
				}
				panic(p)
			}
		}()
		callSeq = r.s.NextSeq()
		if tx.Mode == "batch" {
			r.s.BatchWait(1)
			waiting := true
			defer func() {
				if waiting {
					r.s.BatchWait(-1)
				}
			}()
			tr.onBody = func() {
				if waiting {
					waiting = false
					r.s.BatchWait(-1)
				}
			}
			err = r.db.Batch(callCtx, body)
		} else if tx.Mode == "migrate" {
			// the library's own transaction wrapper: the migrator records a failure on the step and still returns
			// the version it was heading for (the usual style of a migrator); Migrate must fail and commit nothing
			r.mu.Lock()
			target := r.migVersion + 1
			r.mu.Unlock()
			err = boltz.NewMigratorManager(r.db).Migrate("dsim", target, func(step *boltz.MigrationStep) int {
				if e := body(step.Ctx); e != nil {
					step.SetError(e)
					if len(tx.Ops)%2 == 0 {
						return step.CurrentVersion // the other usual style: a failed step reports no progress
					}
				}
				return target
			})
			if err == nil {
				r.mu.Lock()
				r.migVersion = target
				r.mu.Unlock()
			}
		} else {
			err = r.db.Update(callCtx, body)
		}
	}()
	retSeq := r.s.NextSeq()
	if tx.Early {
		r.s.HintBlockedNeed(t.Name, NeedRLock)
	}
	if r.plan.Nonce {
		r.mu.Lock()
		h := histOp{Task: t.Name, Kind: "w", Call: callSeq, Ret: retSeq}
		if n := len(tr.attempts); n > 0 {
			last := tr.attempts[n-1]
			h.Nonce = fmt.Sprintf("%s@%d", tr.id, n)
			h.Effect = last.btx.committed && last.done
		}
		r.hist = append(r.hist, h)
		r.mu.Unlock()
	}
	t.Yield("tx.end", NeedNone)
	r.afterTx(tr, err, panicked)
}

func (r *Run) body(tr *txRun, ctx boltz.MutateContext) (err error) {
	t := tr.task
	if tr.onBody != nil {
		tr.onBody()
	}
	r.mu.Lock()
	b := r.btx
	if b == nil {
		r.mu.Unlock()
		r.s.HarnessError("body running without a write transaction")
		panic(abortSig{})
	}
	r.ctxTx[ctx] = tr // (the context the library made when the caller passed none)
	a := &attempt{tr: tr, btx: b, running: true, seen: map[string]int{}, touched: map[string]bool{}, usedF: map[int]bool{}}
	b.attempts = append(b.attempts, a)
	tr.attempts = append(tr.attempts, a)
	if len(tr.attempts) > 1 {
		if r.res.Probes == nil {
			r.res.Probes = map[string]int{}
		}
		r.res.Probes["batch_body_reexecuted"]++
	}
	if len(b.attempts) > 1 {
		if r.res.Probes == nil {
			r.res.Probes = map[string]int{}
		}
		r.res.Probes["batch_coalesced_members"]++
	}
	r.active = a
	r.mu.Unlock()
	defer func() {
		r.mu.Lock()
		a.running = false
		if r.active == a {
			r.active = nil
		}
		if r.opt.RecordKeys {
			var ks []string
			for k := range a.touched {
				ks = append(ks, k)
			}
			sort.Strings(ks)
			r.res.Attempts = append(r.res.Attempts, AttemptInfo{Tx: tr.id, Touched: ks, Events: append([]Ev(nil), a.events...), Done: a.done})
		}
		r.mu.Unlock()
	}()
	yield := func(point string) {
		r.mu.Lock()
		a.running = false
		r.active = nil
		r.mu.Unlock()
		t.Yield(point, NeedNone)
		r.mu.Lock()
		a.running = true
		r.active = a
		r.mu.Unlock()
	}
	if tr.plan.Mode == "batch" {
		yield("batch.body")
	}
	fail := func(kind string) {
		r.mu.Lock()
		a.mustFail = kind
		r.mu.Unlock()
		r.bump(&r.res.FaultsHit, kind)
	}
	if r.plan.Nonce {
		nonce := fmt.Sprintf("%s@%d", tr.id, len(tr.attempts))
		if err := writeNonce(ctx.Tx(), nonce); err != nil {
			r.s.HarnessError("nonce: " + err.Error())
			panic(abortSig{})
		}
		r.mu.Lock()
		b.nonce = nonce
		r.mu.Unlock()
	}
	for i, op := range tr.plan.Ops {
		for fi, f := range tr.plan.Faults {
			if f.At == i && !a.usedF[fi] {
				switch f.Kind {
				case "F1":
					a.usedF[fi] = true
					fail("F1")
					return errInjected
				case "F5":
					a.usedF[fi] = true
					fail("F5")
					panic(injectedPanic{})
				}
			}
		}
		if i > 0 {
			if i == len(tr.plan.Ops)-1 {
				yield("op.last") // followed by the commit: never part of a race window
			} else {
				yield("op")
			}
		}
		if op.K == "updateCtx" {
			// the caller attaches a value to the context and goes on with the context UpdateContext returns: actions
			// registered through it belong to this transaction like any other
			ctx = ctx.UpdateContext(func(c context.Context) context.Context { return context.WithValue(c, ctxKey{}, tr.id) })
			if tr.plan.Ctx == "sys" {
				// (UpdateContext of a system context hands back the wrapped ordinary context; whether it should stay a
				// system context is not stated anywhere, the caller asks for it again)
				ctx = ctx.GetSystemContext()
			}
			if v, _ := ctx.Context().Value(ctxKey{}).(string); v != tr.id {
				r.s.HarnessError("UpdateContext: value not visible through the returned context")
				panic(abortSig{})
			}
			r.mu.Lock()
			r.ctxTx[ctx] = tr
			r.res.Ops++
			r.mu.Unlock()
			continue
		}
		if err := r.execOp(a, ctx, i, op); err != nil {
			return err
		}
	}
	for fi, f := range tr.plan.Faults {
		if f.At >= len(tr.plan.Ops) && !a.usedF[fi] {
			switch f.Kind {
			case "F1":
				a.usedF[fi] = true
				fail("F1")
				return errInjected
			case "F5":
				a.usedF[fi] = true
				fail("F5")
				panic(injectedPanic{})
			}
		}
		if f.Kind == "F7" {
			// armed when this transaction's commit begins (the failpoints are global to the bbolt package and
			// another database - a snapshot being marked - may commit while this Batch is still collecting members)
			r.mu.Lock()
			b.pendingFP = append(b.pendingFP, f.FP)
			r.mu.Unlock()
		}
	}
	r.mu.Lock()
	a.done = true
	r.mu.Unlock()
	return nil
}

// execOp runs one operation against model and store and compares the outcomes.
func (r *Run) execOp(a *attempt, ctx boltz.MutateContext, i int, op Op) error {
	b := a.btx
	now := time.Now().UnixNano()
	r.mu.Lock()
	a.firedOp = ""
	r.res.Ops++
	r.mu.Unlock()
	if a.tr.plan.Ctx == "sys" {
		op.Sys = true // the whole transaction runs on a system context
	}
	if op.K == "listen" {
		r.lateListen(fmt.Sprintf("L11:%s#%d", a.tr.id, i), op, b.id)
		return nil
	}
	exp := b.working.Apply(op, now)
	if exp.Skipped {
		r.probe("skipped:" + exp.Why)
		return nil
	}
	if !exp.OK {
		for _, rule := range strings.Split(exp.Why, "+") {
			r.probe("reject:" + rule) // which rules of the model prescribed the rejection (reach of fault kind F2)
		}
	}
	// (the attempt number tells an action registered by an abandoned Batch attempt from the committed attempt's)
	tag := fmt.Sprintf("%s#%d@%d", a.tr.id, i, len(a.tr.attempts))
	switch op.K {
	case "preCommit":
		pctx := ctx
		if op.Sys {
			pctx = ctx.GetSystemContext() // registered through a system context derived inside the transaction
		}
		r.mu.Lock()
		a.pres = append(a.pres, tag)
		r.mu.Unlock()
		pctx.AddPreCommitAction(func(boltz.MutateContext) error {
			r.ledger.mu.Lock()
			r.ledger.PreActs[tag]++
			r.ledger.mu.Unlock()
			if op.Fail {
				// the context keeps the actions of earlier attempts (Batch re-execution): charge the current one
				r.mu.Lock()
				a.tr.attempts[len(a.tr.attempts)-1].mustFail = "F4"
				r.mu.Unlock()
				r.bump(&r.res.FaultsHit, "F4")
				return errInjected
			}
			return nil
		})
		if op.Fail {
			r.bump(&r.res.FaultsConf, "F4")
		}
		return nil
	case "commitAction":
		r.mu.Lock()
		a.commits = append(a.commits, tag)
		r.mu.Unlock()
		actx := ctx
		if op.Sys {
			actx = ctx.GetSystemContext()
		}
		if op.TxCtx {
			// a context of its own over the running transaction: its commit actions hang on the same commit
			actx = boltz.NewTxMutateContext(context.Background(), ctx.Tx())
		}
		actx.AddCommitAction(func() {
			defer r.s.AsyncDone()
			r.s.AsyncEnter("async:commit:" + tag)
			r.mu.Lock()
			during := r.active != nil && r.active.running
			r.mu.Unlock()
			r.ledger.mu.Lock()
			r.ledger.CommitActs[tag]++
			r.ledger.mu.Unlock()
			_ = during
		})
		return nil
	}
	var res execResult
	var pv any
	opx := op
	if a.tr.plan.Ctx == "sys" {
		// the operation runs on the context the library hands to the transaction function, as it is: it must
		// still be the system context the caller passed in
		opx.Sys = false
	}
	if op.Nested {
		// the documented join path: Db.Update on a context that is already bound to a transaction just runs fn
		nctx := ctx
		if op.TxCtx {
			nctx = boltz.NewTxMutateContext(context.Background(), ctx.Tx()) // an ordinary context of its own
			opx.Sys = op.Sys
		}
		nerr := r.db.Update(nctx, func(ctx boltz.MutateContext) error {
			res, pv = safeExecOp(r.st, ctx, opx)
			return res.err
		})
		if pv == nil && res.err == nil && nerr != nil {
			res.err = nerr
		}
	} else {
		res, pv = safeExecOp(r.st, ctx, opx)
	}
	r.mu.Lock()
	fired := a.firedOp
	r.mu.Unlock()
	if pv != nil {
		r.bump(&r.res.Trans, op.K+"/"+op.S+"/panic/"+fired)
		if r.violate(Violation{Props: []string{"C07"}, Oracle: "op", Sig: "panic-in-op:" + fired + ":" + op.K + ":" + op.S,
			Detail: fmt.Sprintf("%s: %s panicked instead of returning an error (fault: %s): %v", a.tr.id, op, orNone(fired), pv)}) {
			panic(abortSig{})
		}
	}
	outcome := "ok"
	if res.err != nil {
		outcome = "err:" + classify(res.err)
	}
	r.bump(&r.res.Trans, op.K+"/"+op.S+"/"+outcome+"/"+fired)
	r.logf("%s op %d %s -> err=%v exp.OK=%v why=%s fired=%s", a.tr.id, i, op, res.err, exp.OK, exp.Why, fired)
	sigOp := op.K + ":" + op.S
	switch {
	case fired != "":
		if res.err == nil {
			if r.violate(Violation{Props: []string{"C07"}, Oracle: "op", Sig: "fault-swallowed:" + fired + ":" + sigOp,
				Detail: fmt.Sprintf("%s: a %s failure was raised inside %s but the operation reported success", a.tr.id, fired, op)}) {
				panic(abortSig{})
			}
		}
	case exp.OK && res.err != nil:
		if r.violate(Violation{Props: r.propsForUnexpectedError(op), Oracle: "op", Sig: "unexpected-error:" + sigOp + ":" + classify(res.err),
			Detail: fmt.Sprintf("%s: %s must succeed in the state reached by the committed history, got error: %v", a.tr.id, op, res.err)}) {
			panic(abortSig{})
		}
	case !exp.OK && res.err == nil:
		props := append([]string{"C07"}, propsForReject(exp.Why)...)
		if r.violate(Violation{Props: props, Oracle: "op", Sig: "accepted-invalid:" + sigOp + ":" + exp.Why,
			Detail: fmt.Sprintf("%s: %s must be rejected (%s) but reported success", a.tr.id, op, exp.Why)}) {
			panic(abortSig{})
		}
	case !exp.OK:
		if !classAccepted(classify(res.err), exp.Classes) {
			if r.violate(Violation{Props: propsForReject(exp.Why), Oracle: "op", Sig: "wrong-error-class:" + sigOp + ":" + exp.Why,
				Detail: fmt.Sprintf("%s: %s rejected (%s) with error %q (class %s), the property names %v", a.tr.id, op, exp.Why, res.err, classify(res.err), exp.Classes)}) {
				panic(abortSig{})
			}
		}
	}
	if res.err != nil {
		r.mu.Lock()
		if a.mustFail == "" {
			a.mustFail = "F2"
			a.rejectWhy = exp.Why
		}
		r.mu.Unlock()
		if fired == "" {
			r.bump(&r.res.FaultsHit, "F2")
		}
		return res.err
	}
	if exp.Changed != nil && res.changed != nil && *exp.Changed != *res.changed {
		if r.violate(Violation{Props: []string{"C05"}, Oracle: "op", Sig: "link-changed-flag:" + op.K,
			Detail: fmt.Sprintf("%s: %s reported changed=%v, expected %v", a.tr.id, op, *res.changed, *exp.Changed)}) {
			panic(abortSig{})
		}
	}
	if exp.Count != nil && res.count != nil && *exp.Count != *res.count && !(*exp.Count <= 0 && *res.count <= 0) {
		if r.violate(Violation{Props: []string{"C05"}, Oracle: "op", Sig: "rc-count:" + op.K,
			Detail: fmt.Sprintf("%s: %s returned count %d, expected %d", a.tr.id, op, *res.count, *exp.Count)}) {
			panic(abortSig{})
		}
	}
	r.mu.Lock()
	a.events = append(a.events, exp.Events...)
	for _, d := range exp.Deleted {
		if !strings.HasPrefix(d.Store, "probe:") {
			a.deleted = append(a.deleted, d)
		}
	}
	if len(exp.Deleted) >= 3 || (len(exp.Deleted) > 0 && exp.Deleted[len(exp.Deleted)-1].Store == "probe:cascade") {
		if r.res.Probes == nil {
			r.res.Probes = map[string]int{}
		}
		r.res.Probes["cascade_deleted_2plus_rows"]++
	}
	if op.K == "create" && r.everDel[IdRef{baseStore(op.S), op.Id}] {
		if r.res.Probes == nil {
			r.res.Probes = map[string]int{}
		}
		r.res.Probes["recreated_after_delete"]++
	}
	r.mu.Unlock()
	return nil
}

func baseStore(s string) string {
	if s == StStaff || s == StPX {
		return StPeople
	}
	return s
}

func (r *Run) propsForUnexpectedError(op Op) []string {
	set := map[string]bool{}
	r.mu.Lock()
	if r.everDel[IdRef{baseStore(op.S), op.Id}] {
		set["C06"] = true
	}
	r.mu.Unlock()
	switch op.K {
	case "create", "update":
		switch op.S {
		case StDepts:
			set["C03"] = true
		case StPeople, StStaff, StPX:
			set["C03"] = true
			set["C04"] = true
			if len(op.Groups) > 0 {
				set["C05"] = true
			}
		case StBadges, StNotes, StTickets, StMemos, StReviews, StFolders, StDesks:
			set["C04"] = true
		case StGroups:
			set["C05"] = true
		}
	case "delete", "deleteWhere":
		set["C04"] = true
		set["C06"] = true
		if op.S == StGroups {
			set["C05"] = true
		}
	default:
		set["C05"] = true
	}
	if op.S == StStaff || op.S == StPX {
		set["C15"] = true
	}
	if op.Sys || op.IsSys {
		set["C16"] = true
	}
	return sortedKeys(set)
}

func (r *Run) afterTx(tr *txRun, err error, panicked bool) {
	r.mu.Lock()
	var last *attempt
	if len(tr.attempts) > 0 {
		last = tr.attempts[len(tr.attempts)-1]
	}
	r.mu.Unlock()
	if last == nil {
		if err == nil {
			if r.violate(Violation{Props: []string{"C07"}, Oracle: "tx", Sig: "success-without-body", Detail: tr.id + " returned nil although its body never ran"}) {
				panic(abortSig{})
			}
		}
		return
	}
	committed := last.btx.committed && last.done
	why := last.mustFail
	f7 := false
	for _, f := range tr.plan.Faults {
		if f.Kind == "F7" {
			f7 = true
		}
	}
	if !committed && why == "" && f7 {
		why = "F7"
		r.bump(&r.res.FaultsHit, "F7")
	}
	if !committed && why == "" {
		// a co-batched member's commit failure (F7) is passed to all callers
		for _, a := range last.btx.attempts {
			for _, f := range a.tr.plan.Faults {
				if f.Kind == "F7" {
					why = "F7-comember"
				}
			}
		}
	}
	r.logf("%s returned err=%v committed=%v why=%s attempts=%d", tr.id, err, committed, why, len(tr.attempts))
	if committed {
		for fi, f := range tr.plan.Faults {
			if f.Kind != "F3" || !f.Must {
				continue
			}
			asked := false
			for _, a := range tr.attempts {
				if a.usedF[fi] {
					asked = true
				}
			}
			if !asked {
				kind := "untyped"
				if f.Typed {
					kind = "typed"
				}
				if r.violate(Violation{Props: []string{"C07"}, Oracle: "tx", Sig: "constraint-not-consulted:" + f.Store + ":" + f.Change + ":" + kind,
					Detail: fmt.Sprintf("%s committed a %s change of %q on store %s, but the %s constraint registered on that store was never asked (ProcessPreCommit): its veto could not have reached the caller", tr.id, f.Change, f.Id, f.Store, kind)}) {
					panic(abortSig{})
				}
			}
		}
	}
	switch {
	case committed && last.mustFail != "":
		// something failed inside the transaction (rejected operation, veto, storage error, caller error, panic,
		// pre-commit action) and it committed nevertheless
		if r.violate(Violation{Props: []string{"C07"}, Oracle: "tx", Sig: "committed-despite-failure:" + tr.plan.Mode + ":" + last.mustFail,
			Detail: fmt.Sprintf("%s (%s): a %s failure occurred inside the transaction, yet it committed (returned %v)", tr.id, tr.plan.Mode, last.mustFail, err)}) {
			panic(abortSig{})
		}
	case err == nil && !committed:
		if r.violate(Violation{Props: []string{"C07"}, Oracle: "tx", Sig: "failure-not-reported:" + tr.plan.Mode + ":" + why,
			Detail: fmt.Sprintf("%s (%s) returned nil but its transaction did not commit (failure: %s)", tr.id, tr.plan.Mode, why)}) {
			panic(abortSig{})
		}
	case err != nil && committed:
		if r.violate(Violation{Props: []string{"C07"}, Oracle: "tx", Sig: "error-after-commit:" + tr.plan.Mode,
			Detail: fmt.Sprintf("%s (%s) returned %v although its transaction committed", tr.id, tr.plan.Mode, err)}) {
			panic(abortSig{})
		}
	case err != nil && why == "":
		if r.violate(Violation{Props: []string{"C07"}, Oracle: "tx", Sig: "unexplained-failure:" + tr.plan.Mode,
			Detail: fmt.Sprintf("%s (%s) failed with %v although nothing in it failed", tr.id, tr.plan.Mode, err)}) {
			panic(abortSig{})
		}
	}
}

// ---------- end of run ----------

func (r *Run) finalChecks() {
	r.mu.Lock()
	r.forceChk = true
	r.mu.Unlock()
	r.onQuiescentFinal()
	if r.hasOwn() {
		return
	}
	if r.plan.Listeners {
		for _, v := range r.ledger.Check() {
			r.violate(v)
		}
	}
	if r.hasOwn() || r.degraded {
		return // the end-of-run integrity probe presumes a state every other oracle accepted
	}
	r.profileFinal()
}

func (r *Run) onQuiescentFinal() {
	// hooks are off: plain reads
	r.onQuiescent()
}

// IntegritySoundness: on a state reached through the API alone the integrity check must report nothing (C09).
func (r *Run) integritySoundness() {
	var reports []string
	err := r.db.Update(nil, func(ctx boltz.MutateContext) error {
		for _, st := range r.st.All() {
			if err := st.CheckIntegrity(ctx, false, func(err error, fixed bool) {
				reports = append(reports, err.Error())
			}); err != nil {
				return err
			}
		}
		return errInjected // roll back: this probe must not influence anything
	})
	if err != nil && !errors.Is(err, errInjected) {
		r.viols = append(r.viols, Violation{Props: []string{"C09"}, Oracle: "integrity", Sig: "check-error", Detail: "CheckIntegrity failed on a consistent database: " + err.Error()})
		return
	}
	if len(reports) > 0 {
		r.viols = append(r.viols, Violation{Props: []string{"C09"}, Oracle: "integrity", Sig: "false-report",
			Detail: fmt.Sprintf("CheckIntegrity reported %d problem(s) on a database reached through the API alone: %s", len(reports), strings.Join(reports, "; "))})
	}
}

// safeExecOp converts a panic raised by the library into a value (abort / injected panics pass through).
func safeExecOp(st *Stores, ctx boltz.MutateContext, op Op) (res execResult, panicVal any) {
	defer func() {
		if p := recover(); p != nil {
			switch p.(type) {
			case abortSig, injectedPanic:
				panic(p)
			}
			panicVal = fmt.Sprintf("%v", p)
		}
	}()
	return ExecOp(st, ctx, op), nil
}

// viewGuarded runs a read transaction of the harness. A panic raised inside the library (e.g. the database handle
// is gone after a restore went wrong) comes back as an error; a panic of harness code stays a panic.
func viewGuarded(db *boltz.DbImpl, fn func(tx *bbolt.Tx) error) (err error) {
	defer func() {
		if p := recover(); p != nil {
			switch p.(type) {
			case abortSig, injectedPanic:
				panic(p)
			}
			if !libraryPanic() {
				panic(p)
			}
			err = fmt.Errorf("the read transaction panicked inside the library: %v", p)
		}
	}()
	return db.View(fn)
}

type ctxKey struct{}
