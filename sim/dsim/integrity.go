package dsim

// C09: integrity check. A consistent state is reached by a crud history; then a random subset of corruptions (F10)
// is applied with raw bucket edits on pairwise distinct targets; then
//   CheckIntegrity(fix=false) on every store in one committed transaction  -> complete + read-only
//   CheckIntegrity(fix=true)  once                                         -> single fix pass
//   CheckIntegrity(fix=false) again                                        -> convergent: only genuine data conflicts
// and the mirror oracle (indexes recomputed from stored entities) must hold again.

import (
	"fmt"
	"os"
	"sort"
	"strings"

	"github.com/openziti/storage/boltz"
	"go.etcd.io/bbolt"
)

var corruptionClasses = []string{
	"unique-missing", "unique-extra", "unique-wrong",
	"set-missing-entry", "set-extra-absent", "set-extra-novalue", "set-missing-key", "set-empty-key",
	"fk-missing-backref", "fk-extra-backref-absent", "fk-extra-backref-nonmatching",
	"fk-dangling-nullable", "fk-dangling-nonnullable", "fkc-dangling",
	"link-one-sided", "link-one-sided-g", "link-dangling",
	"dup-unique", "null-nonnullable",
	// the same families on the other wirings: the child store's own unique index, the nullable unique index, the
	// self-referencing and the cascade-delete fk index, the second fk constraint
	"unique-missing-child", "unique-extra-child", "unique-missing-nick",
	"fk-missing-backref-mentees", "fk-extra-backref-badges", "fk-missing-backref-badges", "fkc-dangling-memo", "fkc-dangling-ticket",
	// the fk constraint that does not allow null: a nil value, and (under fkc-dangling-memo) a dangling value nobody can repair
	"fkc-nil-memo",
	// several rows of one store referencing the SAME absent target; a link kept on one side while the other end has
	// no link bucket at all (it was never linked / the whole bucket was lost)
	"fkc-dangling-pair", "link-one-sided-nobucket",
	// two corruptions on the same index key: every entry of the key is stale AND its real holders are missing from it
	"set-key-all-stale-holders-missing",
}

type appliedCorruption struct {
	c         Corruption
	desc      string
	expect    [][]string // each entry: substrings that must all occur in ONE report of the check-mode pass
	unfixable [][]string // reports that may (and must) remain after the fix pass
	mirrorOK  []string   // mirror signatures that legitimately remain after the fix pass (data conflicts)
}

func typedKey(id string) []byte { return boltz.PrependFieldType(boltz.TypeString, []byte(id)) }

func typedStr(v string) []byte { return boltz.PrependFieldType(boltz.TypeString, []byte(v)) }

func mustBucket(tx *bbolt.Tx, create bool, path ...string) *bbolt.Bucket {
	path = withBase(path)
	b := tx.Bucket([]byte(path[0]))
	for _, p := range path[1:] {
		if b == nil {
			return nil
		}
		n := b.Bucket([]byte(p))
		if n == nil && create {
			var err error
			n, err = b.CreateBucket([]byte(p))
			if err != nil {
				panic(err)
			}
		}
		b = n
	}
	return b
}

// applyCorruptions edits the raw buckets. Targets are drawn from the committed model by index (c.N mod #candidates)
// so that a plan stays plain data; a corruption without a candidate, or whose target entity is already used by
// another corruption, is skipped.
func (r *Run) applyCorruptions(tx *bbolt.Tx, m *Model, list []Corruption) []appliedCorruption {
	var out []appliedCorruption
	used := map[string]bool{}
	people := keysOf(m.People)
	depts := keysOf(m.Depts)
	take := func(id string) bool {
		if used[id] {
			return false
		}
		used[id] = true
		return true
	}
	pickFrom := func(c Corruption, cands []string) (string, bool) {
		if len(cands) == 0 {
			return "", false
		}
		// first unused candidate starting at N
		for k := 0; k < len(cands); k++ {
			id := cands[(c.N+k)%len(cands)]
			if !used[id] {
				return id, true
			}
		}
		return "", false
	}
	ghostN := 0
	ghost := func() string {
		ghostN++
		return fmt.Sprintf("ghost%d", ghostN)
	}
	put := func(b *bbolt.Bucket, k, v []byte) {
		if err := b.Put(k, v); err != nil {
			panic(err)
		}
	}
	del := func(b *bbolt.Bucket, k []byte) {
		if err := b.Delete(k); err != nil {
			panic(err)
		}
	}
	idxName := func() *bbolt.Bucket { return mustBucket(tx, true, rootBucket, boltz.IndexesBucket, StPeople, "name") }
	idxRoles := func() *bbolt.Bucket { return mustBucket(tx, true, rootBucket, boltz.IndexesBucket, StPeople, "roles") }
	for _, c := range list {
		switch c.Class {
		case "unique-missing":
			p, ok := pickFrom(c, people)
			if !ok || !take(p) {
				continue
			}
			del(idxName(), []byte(m.People[p].Name))
			out = append(out, appliedCorruption{c: c, desc: "unique index entry of " + p + " removed",
				expect: [][]string{{"unique index people.name missing value " + m.People[p].Name + " for id " + p}}})
		case "unique-extra":
			g := ghost()
			put(idxName(), []byte("zz-"+g), []byte(g))
			out = append(out, appliedCorruption{c: c, desc: "unique index entry for absent id " + g,
				expect: [][]string{{"unique index people.name references " + g, "doesn't exist"}}})
		case "unique-wrong":
			if len(people) < 2 {
				continue
			}
			p, ok := pickFrom(c, people)
			if !ok {
				continue
			}
			var q string
			for _, x := range people {
				if x != p && !used[x] {
					q = x
					break
				}
			}
			if q == "" || !take(p) || !take(q) {
				continue
			}
			put(idxName(), []byte(m.People[p].Name), []byte(q))
			out = append(out, appliedCorruption{c: c, desc: "unique index value of " + p + " points at " + q,
				expect: [][]string{{"unique index people.name references " + q + " for value " + m.People[p].Name + " which should be " + m.People[q].Name}}})
		case "set-missing-entry", "set-missing-key":
			var cands []string
			for _, p := range people {
				if len(m.People[p].Roles) > 0 {
					cands = append(cands, p)
				}
			}
			p, ok := pickFrom(c, cands)
			if !ok {
				continue
			}
			role := m.People[p].Roles[c.N%len(m.People[p].Roles)]
			if used["role:"+role] {
				continue
			}
			if c.Class == "set-missing-entry" {
				if !take(p) {
					continue
				}
				used["role:"+role] = true
				del(idxRoles().Bucket([]byte(role)), typedKey(p))
				out = append(out, appliedCorruption{c: c, desc: "set index entry " + role + "->" + p + " removed",
					expect: [][]string{{"for index on people.roles, id " + p + " has val " + role + ", but is not in the index"}}})
			} else {
				var exp [][]string
				okAll := true
				for _, h := range people {
					if containsStr(m.People[h].Roles, role) {
						if used[h] {
							okAll = false
						}
						exp = append(exp, []string{"for index on people.roles, id " + h + " has val " + role + ", but is not in the index"})
					}
				}
				if !okAll {
					continue
				}
				for _, h := range people {
					if containsStr(m.People[h].Roles, role) {
						used[h] = true
					}
				}
				used["role:"+role] = true
				if err := idxRoles().DeleteBucket([]byte(role)); err != nil {
					panic(err)
				}
				out = append(out, appliedCorruption{c: c, desc: "set index key " + role + " removed", expect: exp})
			}
		case "set-key-all-stale-holders-missing":
			var cands []string
			for _, p := range people {
				if len(m.People[p].Roles) > 0 {
					cands = append(cands, p)
				}
			}
			p, ok := pickFrom(c, cands)
			if !ok {
				continue
			}
			role := m.People[p].Roles[c.N%len(m.People[p].Roles)]
			if used["role:"+role] {
				continue
			}
			okAll := true
			var exp [][]string
			var holders []string
			for _, h := range people {
				if containsStr(m.People[h].Roles, role) {
					if used[h] {
						okAll = false
					}
					holders = append(holders, h)
					exp = append(exp, []string{"for index on people.roles, id " + h + " has val " + role + ", but is not in the index"})
				}
			}
			if !okAll {
				continue
			}
			for _, h := range holders {
				used[h] = true
			}
			used["role:"+role] = true
			g := ghost()
			kb := idxRoles().Bucket([]byte(role))
			for _, h := range holders {
				del(kb, typedKey(h))
			}
			if c.N%2 == 0 {
				put(kb, typedKey(g), nil)
				exp = append(exp, []string{"for index on people.roles, val " + role + " references id " + g + ", which doesn't exist"})
			} else {
				exp = append(exp, []string{"for index on people.roles, index value " + role + " has no referenced values"})
			}
			out = append(out, appliedCorruption{c: c, desc: "set index key " + role + ": holders removed, only a stale / no entry left", expect: exp})
		case "set-extra-absent":
			role := U.Roles[c.N%len(U.Roles)]
			if used["role:"+role] {
				continue
			}
			used["role:"+role] = true
			g := ghost()
			put(mustBucket(tx, true, rootBucket, boltz.IndexesBucket, StPeople, "roles", role), typedKey(g), nil)
			out = append(out, appliedCorruption{c: c, desc: "set index entry " + role + "->" + g + " (absent id)",
				expect: [][]string{{"for index on people.roles, val " + role + " references id " + g + ", which doesn't exist"}}})
		case "set-extra-novalue":
			role := U.Roles[c.N%len(U.Roles)]
			var cands []string
			for _, p := range people {
				if !containsStr(m.People[p].Roles, role) {
					cands = append(cands, p)
				}
			}
			p, ok := pickFrom(c, cands)
			if !ok || used["role:"+role] || !take(p) {
				continue
			}
			used["role:"+role] = true
			put(mustBucket(tx, true, rootBucket, boltz.IndexesBucket, StPeople, "roles", role), typedKey(p), nil)
			out = append(out, appliedCorruption{c: c, desc: "set index entry " + role + "->" + p + " (entity lacks the value)",
				expect: [][]string{{"for index on people.roles, val " + role + " references id " + p + ", which doesn't contain the value"}}})
		case "set-empty-key":
			g := ghost()
			mustBucket(tx, true, rootBucket, boltz.IndexesBucket, StPeople, "roles", "role-"+g)
			out = append(out, appliedCorruption{c: c, desc: "empty set index key role-" + g,
				expect: [][]string{{"for index on people.roles, index value role-" + g + " has no referenced values"}}})
		case "fk-missing-backref":
			p, ok := pickFrom(c, people)
			if !ok || !take(p) {
				continue
			}
			d := m.People[p].Dept
			del(mustBucket(tx, false, rootBucket, StDepts, d, "members"), typedKey(p))
			out = append(out, appliedCorruption{c: c, desc: "back-reference " + d + ".members->" + p + " removed",
				expect: [][]string{{"for people " + p + " field dept references dept " + d + ", but no back-reference exists"}}})
		case "fk-extra-backref-absent":
			d, ok := pickFrom(c, depts)
			if !ok {
				continue
			}
			g := ghost()
			put(mustBucket(tx, true, rootBucket, StDepts, d, "members"), typedKey(g), nil)
			out = append(out, appliedCorruption{c: c, desc: "back-reference " + d + ".members->" + g + " (absent referrer)",
				expect: [][]string{{"for fk people.dept, dept " + d + " references people " + g + ", which doesn't exist"}}})
		case "fk-extra-backref-nonmatching":
			d, ok := pickFrom(c, depts)
			if !ok {
				continue
			}
			var cands []string
			for _, p := range people {
				if m.People[p].Dept != d {
					cands = append(cands, p)
				}
			}
			p, ok := pickFrom(c, cands)
			if !ok || !take(p) {
				continue
			}
			put(mustBucket(tx, true, rootBucket, StDepts, d, "members"), typedKey(p), nil)
			out = append(out, appliedCorruption{c: c, desc: "back-reference " + d + ".members->" + p + " (referrer names another dept)",
				expect: [][]string{{"for fk people.dept, dept " + d + " references people " + p + ", which has non-matching value " + m.People[p].Dept}}})
		case "fk-dangling-nullable":
			var cands []string
			for _, p := range people {
				if strOr(m.People[p].Mentor) == "" {
					cands = append(cands, p)
				}
			}
			p, ok := pickFrom(c, cands)
			if !ok || !take(p) {
				continue
			}
			g := ghost()
			put(mustBucket(tx, false, rootBucket, StPeople, p), []byte("mentor"), typedStr(g))
			out = append(out, appliedCorruption{c: c, desc: "people " + p + ".mentor -> absent " + g,
				expect: [][]string{{"people.mentor has invalid value for people " + p + ", which references invalid people " + g}}})
		case "fk-dangling-nonnullable":
			bs := keysOf(m.Badges)
			b, ok := pickFrom(c, bs)
			if !ok || !take(b) {
				continue
			}
			g := ghost()
			owner := m.Badges[b]
			if ob := mustBucket(tx, false, rootBucket, StPeople, owner, "badges"); ob != nil {
				del(ob, typedKey(b))
			}
			put(mustBucket(tx, false, rootBucket, StBadges, b), []byte("owner"), typedStr(g))
			exp := []string{"badges.owner has invalid value for badge " + b + ", which references invalid people " + g}
			out = append(out, appliedCorruption{c: c, desc: "badge " + b + ".owner -> absent " + g + " (non-nullable)",
				expect: [][]string{exp}, unfixable: [][]string{exp}, mirrorOK: []string{"fk-dangling:badges.owner->people.badges"}})
		case "fkc-dangling":
			ns := keysOf(m.Notes)
			n, ok := pickFrom(c, ns)
			if !ok || !take(n) {
				continue
			}
			g := ghost()
			put(mustBucket(tx, false, rootBucket, StNotes, n), []byte("about"), typedStr(g))
			out = append(out, appliedCorruption{c: c, desc: "note " + n + ".about -> absent " + g,
				expect: [][]string{{"notes.about has invalid value for note " + n + ", which references invalid people " + g}}})
		case "fkc-dangling-pair":
			store, field, ids, target := StNotes, "about", keysOf(m.Notes), "people"
			switch c.N % 5 {
			case 1:
				store, field, ids, target = StTickets, "assignee", keysOf(m.Tickets), "people"
			case 2:
				store, field, ids, target = StMemos, "topic", keysOf(m.Memos), "group"
			case 3:
				store, field, ids, target = StReviews, "reviewer", keysOf(m.Reviews), "people" // (the staff view of people)
			case 4:
				store, field, ids, target = StFolders, "parent", keysOf(m.Folders), "folder"
			}
			var rows []string
			for _, id := range ids {
				if !used[id] && len(rows) < 3 {
					rows = append(rows, id)
				}
			}
			if len(rows) < 2 {
				continue
			}
			g := ghost()
			ac := appliedCorruption{c: c, desc: store + " " + strings.Join(rows, ",") + "." + field + " -> the same absent " + g}
			for _, id := range rows {
				take(id)
				put(mustBucket(tx, false, rootBucket, store, id), []byte(field), typedStr(g))
				exp := []string{store + "." + field + " has invalid value for " + boltz.GetSingularEntityType(store) + " " + id + ", which references invalid " + target + " " + g}
				ac.expect = append(ac.expect, exp)
				if store == StMemos {
					ac.unfixable = append(ac.unfixable, exp)
					ac.mirrorOK = []string{"fk-dangling:memos.topic->groups"}
				}
			}
			out = append(out, ac)
		case "link-one-sided-nobucket":
			// a person without any link gets a forward entry towards an existing group that has no members bucket entry
			// for it; if the group has no other member its whole bucket is dropped as well
			var ps, gs []string
			for _, p := range people {
				if !used[p] {
					ps = append(ps, p)
				}
			}
			for g := range m.Groups {
				lonely := true
				for k := range m.Links {
					if k.G == g {
						lonely = false
					}
				}
				if lonely && !used[g] {
					gs = append(gs, g)
				}
			}
			sort.Strings(gs)
			if len(ps) == 0 || len(gs) == 0 {
				continue
			}
			p, g := ps[c.N%len(ps)], gs[c.N%len(gs)]
			if m.Links[pair{p, g}] || used["link:"+p+"|"+g] || !take(g) {
				continue
			}
			used["link:"+p+"|"+g] = true
			if gb := mustBucket(tx, false, rootBucket, StGroups, g); gb != nil && gb.Bucket([]byte("members")) != nil {
				if err := gb.DeleteBucket([]byte("members")); err != nil {
					panic(err)
				}
			}
			put(mustBucket(tx, true, rootBucket, StPeople, p, "groups"), typedKey(g), nil)
			out = append(out, appliedCorruption{c: c, desc: "link " + p + "->" + g + " added on one side only, the group has no members bucket",
				expect: [][]string{{"people " + p + " references group " + g + ", but reverse link is missing"}}})
		case "link-one-sided", "link-one-sided-g":
			var cands []pair
			for k := range m.Links {
				cands = append(cands, k)
			}
			sort.Slice(cands, func(i, j int) bool {
				if cands[i].P != cands[j].P {
					return cands[i].P < cands[j].P
				}
				return cands[i].G < cands[j].G
			})
			if len(cands) == 0 {
				continue
			}
			k := cands[c.N%len(cands)]
			if used["link:"+k.P+"|"+k.G] || used[k.P] {
				continue
			}
			used["link:"+k.P+"|"+k.G] = true
			if c.Class == "link-one-sided" {
				del(mustBucket(tx, false, rootBucket, StGroups, k.G, "members"), typedKey(k.P))
				out = append(out, appliedCorruption{c: c, desc: "link " + k.P + "->" + k.G + " kept, reverse removed",
					expect: [][]string{{"people " + k.P + " references group " + k.G + ", but reverse link is missing"}}})
			} else {
				del(mustBucket(tx, false, rootBucket, StPeople, k.P, "groups"), typedKey(k.G))
				out = append(out, appliedCorruption{c: c, desc: "link " + k.G + "->" + k.P + " kept, reverse removed",
					expect: [][]string{{"group " + k.G + " references people " + k.P + ", but reverse link is missing"}}})
			}
		case "link-dangling":
			p, ok := pickFrom(c, people)
			if !ok {
				continue
			}
			g := ghost()
			put(mustBucket(tx, true, rootBucket, StPeople, p, "groups"), typedKey(g), nil)
			out = append(out, appliedCorruption{c: c, desc: "person " + p + " linked to absent group " + g,
				expect: [][]string{{"people " + p + " references group " + g + ", which doesn't exist"}}})
		case "unique-missing-child":
			var cands []string
			for _, p := range people {
				if m.People[p].HasStaff {
					cands = append(cands, p)
				}
			}
			p, ok := pickFrom(c, cands)
			if !ok || !take(p) {
				continue
			}
			del(mustBucket(tx, true, rootBucket, boltz.IndexesBucket, StPeople, "badgeNo"), []byte(m.People[p].BadgeNo))
			out = append(out, appliedCorruption{c: c, desc: "child-store unique index entry (badgeNo) of " + p + " removed",
				expect: [][]string{{"unique index people.badgeNo missing value " + m.People[p].BadgeNo + " for id " + p}}})
		case "unique-extra-child":
			g := ghost()
			put(mustBucket(tx, true, rootBucket, boltz.IndexesBucket, StPeople, "badgeNo"), []byte("zz-"+g), []byte(g))
			out = append(out, appliedCorruption{c: c, desc: "child-store unique index entry for absent id " + g,
				expect: [][]string{{"unique index people.badgeNo references " + g, "doesn't exist"}}})
		case "unique-missing-nick":
			var cands []string
			for _, p := range people {
				if strOr(m.People[p].Nick) != "" {
					cands = append(cands, p)
				}
			}
			p, ok := pickFrom(c, cands)
			if !ok || !take(p) {
				continue
			}
			del(mustBucket(tx, true, rootBucket, boltz.IndexesBucket, StPeople, "alias"), []byte(*m.People[p].Nick))
			out = append(out, appliedCorruption{c: c, desc: "nullable unique index entry (nick) of " + p + " removed",
				expect: [][]string{{"unique index people.alias missing value " + *m.People[p].Nick + " for id " + p}}})
		case "fk-missing-backref-mentees":
			var cands []string
			for _, p := range people {
				if mt := strOr(m.People[p].Mentor); mt != "" && mt != p {
					cands = append(cands, p)
				}
			}
			p, ok := pickFrom(c, cands)
			if !ok || !take(p) {
				continue
			}
			mt := *m.People[p].Mentor
			del(mustBucket(tx, false, rootBucket, StPeople, mt, "mentees"), typedKey(p))
			out = append(out, appliedCorruption{c: c, desc: "back-reference " + mt + ".mentees->" + p + " removed",
				expect: [][]string{{"for people " + p + " field mentor references people " + mt + ", but no back-reference exists"}}})
		case "fk-extra-backref-badges":
			p, ok := pickFrom(c, people)
			if !ok {
				continue
			}
			g := ghost()
			put(mustBucket(tx, true, rootBucket, StPeople, p, "badges"), typedKey(g), nil)
			out = append(out, appliedCorruption{c: c, desc: "back-reference " + p + ".badges->" + g + " (absent badge)",
				expect: [][]string{{"for fk badges.owner, people " + p + " references badge " + g + ", which doesn't exist"}}})
		case "fk-missing-backref-badges":
			bs := keysOf(m.Badges)
			b, ok := pickFrom(c, bs)
			if !ok || !take(b) {
				continue
			}
			owner := m.Badges[b]
			del(mustBucket(tx, false, rootBucket, StPeople, owner, "badges"), typedKey(b))
			out = append(out, appliedCorruption{c: c, desc: "back-reference " + owner + ".badges->" + b + " removed",
				expect: [][]string{{"for badge " + b + " field owner references people " + owner + ", but no back-reference exists"}}})
		case "fkc-dangling-memo", "fkc-dangling-ticket":
			store, field, tbl, target := StMemos, "topic", m.Memos, "group"
			if c.Class == "fkc-dangling-ticket" {
				store, field, tbl, target = StTickets, "assignee", m.Tickets, "people"
			}
			id, ok := pickFrom(c, keysOf(tbl))
			if !ok || !take(id) {
				continue
			}
			g := ghost()
			put(mustBucket(tx, false, rootBucket, store, id), []byte(field), typedStr(g))
			exp := []string{store + "." + field + " has invalid value for " + boltz.GetSingularEntityType(store) + " " + id + ", which references invalid " + target + " " + g}
			ac := appliedCorruption{c: c, desc: store + " " + id + "." + field + " -> absent " + g, expect: [][]string{exp}}
			if store == StMemos {
				// memos.topic is not nullable: clearing the field is no repair, the conflict stays reported
				ac.unfixable = [][]string{exp}
				ac.mirrorOK = []string{"fk-dangling:memos.topic->groups"}
			}
			out = append(out, ac)
		case "fkc-nil-memo":
			id, ok := pickFrom(c, keysOf(m.Memos))
			if !ok || !take(id) {
				continue
			}
			put(mustBucket(tx, false, rootBucket, StMemos, id), []byte("topic"), []byte{byte(boltz.TypeNil)})
			nilRep := []string{"memos.topic is non-nillable, but memo with id " + id + " has nil value"}
			out = append(out, appliedCorruption{c: c, desc: "memo " + id + ".topic set to nil (not nullable)",
				expect: [][]string{nilRep}, unfixable: [][]string{nilRep}, mirrorOK: []string{"fk-null-nonnullable:memos.topic"}})
		case "dup-unique":
			if len(people) < 2 {
				continue
			}
			p, ok := pickFrom(c, people)
			if !ok {
				continue
			}
			var q string
			for _, x := range people {
				if x != p && !used[x] {
					q = x
					break
				}
			}
			if q == "" || !take(p) || !take(q) {
				continue
			}
			v := m.People[p].Name
			put(mustBucket(tx, false, rootBucket, StPeople, q), []byte("name"), typedStr(v))
			conflict := []string{"unique index people.name has constraint violation as both", p, q, "have value " + v}
			out = append(out, appliedCorruption{c: c, desc: "people " + q + " given the name of " + p + " (data conflict)",
				expect:    [][]string{conflict, {"unique index people.name references " + q + " for value " + m.People[q].Name + " which should be " + v}},
				unfixable: [][]string{conflict}, mirrorOK: []string{"unique-two-holders:people.name", "unique-read:people.name", "unique-wrong-target:people.name"}})
		case "null-nonnullable":
			p, ok := pickFrom(c, people)
			if !ok || !take(p) {
				continue
			}
			put(mustBucket(tx, false, rootBucket, StPeople, p), []byte("name"), []byte{byte(boltz.TypeNil)})
			nilRep := []string{"entity with id " + p + " has non-nillable unique index people.name, but field has nil value"}
			out = append(out, appliedCorruption{c: c, desc: "people " + p + ".name set to nil (non-nullable)",
				expect:    [][]string{nilRep, {"unique index people.name references " + p + " for value " + m.People[p].Name + " which should be"}},
				unfixable: [][]string{nilRep}})
		}
	}
	return out
}

type intReport struct {
	msg   string
	fixed bool
}

// matches: a report is about an injected corruption if it names the things involved - the ids, values and
// store.field names (words with a digit, a dot, a quote or a backslash). The wording of the report is not part of
// the property, so it is not compared.
func matches(msg string, subs []string) bool {
	for _, s := range subs {
		for _, tok := range salientTokens(s) {
			if !strings.Contains(msg, tok) {
				return false
			}
		}
	}
	return true
}

func salientTokens(s string) []string {
	var out []string
	for _, w := range strings.FieldsFunc(s, func(r rune) bool { return r == ' ' || r == ',' }) {
		w = strings.TrimRight(w, ".:;")
		if strings.ContainsAny(w, "0123456789.\"\\") && w != "" {
			out = append(out, w)
		}
	}
	return out
}

func (r *Run) checkAll(fix bool) ([]intReport, error) {
	var reports []intReport
	err := r.db.Update(nil, func(ctx boltz.MutateContext) error {
		for _, st := range r.st.All() {
			if err := st.CheckIntegrity(ctx, fix, func(err error, fixed bool) {
				reports = append(reports, intReport{err.Error(), fixed})
			}); err != nil {
				return err
			}
		}
		return nil
	})
	return reports, err
}

func (r *Run) dumpNow() *Dump {
	var d *Dump
	r.s.Atomic(func() {
		_ = r.db.View(func(tx *bbolt.Tx) error {
			d = TakeDump(tx)
			return nil
		})
	})
	return d
}

func (r *Run) integrityPhase() {
	bad := func(sig, format string, args ...any) {
		r.viols = append(r.viols, Violation{Props: []string{"C09"}, Oracle: "integrity", Sig: sig, Detail: fmt.Sprintf(format, args...)})
	}
	var applied []appliedCorruption
	if err := r.db.Update(nil, func(ctx boltz.MutateContext) error {
		applied = r.applyCorruptions(ctx.Tx(), r.committed, r.plan.Corrupt)
		return nil
	}); err != nil {
		r.res.HarnessErr = "corrupt: " + err.Error()
		return
	}
	for _, a := range applied {
		r.bump(&r.res.FaultsHit, "F10:"+a.c.Class)
	}
	r.bump(&r.res.Probes, fmt.Sprintf("corruptions_applied_%d", len(applied)))
	for range r.plan.Corrupt {
		r.bump(&r.res.FaultsConf, "F10")
	}
	var descs []string
	for _, a := range applied {
		descs = append(descs, a.desc)
	}
	ctxDesc := fmt.Sprintf("corruptions: [%s]", strings.Join(descs, "; "))

	// 1. check mode: complete, reports not flagged as fixed, database unchanged
	before := r.dumpNow()
	rep1, err := r.checkAll(false)
	if err != nil {
		bad("check-error", "CheckIntegrity(fix=false) failed: %v; %s", err, ctxDesc)
		return
	}
	after := r.dumpNow()
	if len(applied) == 0 && len(rep1) > 0 {
		bad("false-report", "CheckIntegrity reported %d problem(s) on a database reached through the API alone: %s", len(rep1), rep1[0].msg)
		return
	}
	for _, a := range applied {
		for _, exp := range a.expect {
			found := false
			for _, rp := range rep1 {
				if matches(rp.msg, exp) {
					found = true
				}
			}
			if !found {
				var msgs []string
				for _, rp := range rep1 {
					msgs = append(msgs, rp.msg)
				}
				bad("not-reported:"+a.c.Class, "check mode did not report %q (expected a report containing %q); reports: %q; %s", a.desc, exp, msgs, ctxDesc)
				return
			}
		}
	}
	for _, rp := range rep1 {
		if rp.fixed {
			bad("check-mode-claims-fix", "check mode reported %q as fixed; %s", rp.msg, ctxDesc)
			return
		}
	}
	if before.Hash != after.Hash {
		diff := DiffDumps(before, after, 10)
		sig := "check-mode-changed-db"
		onlyEmptyBuckets := true
		for _, l := range diff {
			if !strings.HasPrefix(l, "+ B ") {
				onlyEmptyBuckets = false
			}
		}
		if onlyEmptyBuckets {
			sig = "check-mode-created-empty-buckets"
		}
		if !(onlyEmptyBuckets && os.Getenv("DSIM_DEBUG_IGNORE_EMPTY_BUCKETS") != "") { // debugging aid only
			bad(sig, "CheckIntegrity(fix=false) changed the database:\n   %s\n   %s", strings.Join(diff, "\n   "), ctxDesc)
			return
		}
	}

	// 2. one fix pass  3. re-check: only genuine data conflicts remain, and the indexes mirror the entities again.
	// In half of the runs both happen inside ONE write transaction (the re-check then reads what the fix pass wrote
	// but has not committed yet).
	var rep3 []intReport
	if r.plan.Seed>>11&1 == 1 {
		err = r.db.Update(nil, func(ctx boltz.MutateContext) error {
			for _, fix := range []bool{true, false} {
				for _, st := range r.st.All() {
					if err := st.CheckIntegrity(ctx, fix, func(err error, fixed bool) {
						if !fix {
							rep3 = append(rep3, intReport{err.Error(), fixed})
						}
					}); err != nil {
						return err
					}
				}
			}
			return nil
		})
		if err != nil {
			bad("fix-error", "CheckIntegrity(fix=true) + re-check in one transaction failed: %v; %s", err, ctxDesc)
			return
		}
		r.probe("fix_and_recheck_in_one_tx")
	} else {
		if _, err := r.checkAll(true); err != nil {
			bad("fix-error", "CheckIntegrity(fix=true) failed: %v; %s", err, ctxDesc)
			return
		}
		rep3, err = r.checkAll(false)
		if err != nil {
			bad("check-error", "CheckIntegrity(fix=false) after the fix pass failed: %v; %s", err, ctxDesc)
			return
		}
	}
	for _, rp := range rep3 {
		allowed := false
		for _, a := range applied {
			for _, u := range a.unfixable {
				if matches(rp.msg, u) {
					allowed = true
				}
			}
		}
		if !allowed {
			bad("fix-not-convergent", "after one fix pass the re-check still reports %q; %s", rp.msg, ctxDesc)
			return
		}
	}
	for _, a := range applied {
		for _, u := range a.unfixable {
			found := false
			for _, rp := range rep3 {
				if matches(rp.msg, u) {
					found = true
				}
			}
			if !found {
				bad("conflict-not-reported:"+a.c.Class, "the unfixable conflict %q is no longer reported after the fix pass; %s", a.desc, ctxDesc)
				return
			}
		}
	}
	_ = r.db.View(func(tx *bbolt.Tx) error {
		for _, v := range Mirror(tx, r.st) {
			ok := false
			for _, a := range applied {
				for _, s := range a.mirrorOK {
					if v.Sig == s {
						ok = true
					}
				}
			}
			if !ok {
				bad("fix-left-inconsistency:"+v.Sig, "after the fix pass the redundant state still does not mirror the entities: %s; %s", v.Detail, ctxDesc)
				return nil
			}
		}
		return nil
	})
}
