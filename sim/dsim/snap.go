package dsim

// C17: snapshot and restore under concurrent transactions.

import (
	"bytes"
	"errors"
	"fmt"
	"io"
	"os"
	"path/filepath"
	"reflect"
	"strings"
	"unsafe"

	"github.com/openziti/storage/boltz"
	"go.etcd.io/bbolt"
)

type metaModel struct {
	SnapshotId *string
	Reset      bool
	TimelineId *string
}

type snapRec struct {
	kind  string // file | stream
	path  string // file: where the library wrote it
	id    string
	data  []byte
	model *Model
	nonce string
	dump  *Dump
	meta  metaModel
}

type pendingRestore struct {
	rec *snapRec
	seq int // its number among the completed restores (0: has not released the lock yet)
}

var errStream = errors.New("dsim: injected stream failure")

// yieldingWriter hands control back to the scheduler between the first writes and can fail at a given write (F11).
// Scheduling points and the failure are counted in WRITE CALLS, never in bytes: the physical size of a bolt file
// (its high-water mark) is not a function of its logical content - the library walks Go maps while it writes, so
// the same history can leave trees of slightly different shape - and the schedule must not depend on it. The
// stream of any database has at least three writes (two meta pages, then the data in 32 KiB pieces).
type yieldingWriter struct {
	t      *Task
	buf    bytes.Buffer
	failAt int // <0: never; otherwise the write call (0, 1, 2) that fails
	calls  int
	yield  bool
	failed bool
}

const streamYields = 3

func (w *yieldingWriter) Write(p []byte) (int, error) {
	call := w.calls
	w.calls++
	if w.failAt >= 0 && call >= w.failAt {
		w.failed = true
		return 0, errStream
	}
	if w.yield && call < streamYields {
		w.t.Yield("snapshot.write", NeedNone)
	}
	return w.buf.Write(p)
}

// yieldingReader: the first `yields` reads deliver one 4 KiB page each with a scheduling point before them (so that
// transactions run while the temp file is being written), the rest is delivered without further scheduling points;
// failAt counts READ CALLS (see yieldingWriter: nothing may depend on the byte size). Every snapshot is longer
// than 3 pages, so a failure at read 1 or 2 is always mid-stream.
type yieldingReader struct {
	t      *Task
	data   []byte
	pos    int
	calls  int
	yields int
	failAt int // <0 never: the read call that fails
}

func (r *yieldingReader) Read(p []byte) (int, error) {
	call := r.calls
	r.calls++
	if r.failAt >= 0 && call >= r.failAt {
		return 0, errStream
	}
	if r.pos >= len(r.data) {
		return 0, io.EOF
	}
	n := len(p)
	if call < r.yields {
		r.t.Yield("restore.read", NeedNone)
		n = 4096
	}
	if n > len(p) {
		n = len(p)
	}
	if r.pos+n > len(r.data) {
		n = len(r.data) - r.pos
	}
	copy(p, r.data[r.pos:r.pos+n])
	r.pos += n
	return n, nil
}

func (r *Run) snapViolation(sig, format string, args ...any) {
	if r.violate(Violation{Props: []string{"C17"}, Oracle: "snapshot", Sig: sig, Detail: fmt.Sprintf(format, args...)}) {
		panic(abortSig{})
	}
}

func (r *Run) execSnapshot(t *Task, idx int, tx *TxPlan) {
	t.Yield("snap.begin", NeedRLock)
	r.mu.Lock()
	model, nonce, meta := r.committed, r.committedNonce, r.meta
	r.mu.Unlock()
	dump := r.dumpNow()
	rec := &snapRec{kind: tx.Arg, model: model, nonce: nonce, dump: dump, meta: meta}
	switch tx.Arg {
	case "file":
		path := fmt.Sprintf("%s/snap-%d", r.dir, len(r.snaps))
		if len(tx.Args) > 0 {
			switch tx.Args[0] {
			case "same":
				path = r.dir + "/snap-same"
			case "template":
				path = "__DB_DIR__/snap-of-__DB_FILE__-DATE-TIME"
			case "nextToDb":
				path = "__DB_DIR__/__DB_FILE__.snapshot.keep" // the user's own naming scheme, next to the database file
			}
		}
		actual, id, err := r.db.Snapshot(path)
		if err != nil {
			r.snapViolation("snapshot-error", "Snapshot(%s) failed: %v", path, err)
		}
		data, err := os.ReadFile(actual)
		if err != nil {
			// Snapshot() reported success and named this file
			r.snapViolation("snapshot-file-vanished", "Snapshot() returned %s, which cannot be read: %v", filepath.Base(actual), err)
			r.s.Abort("snapshot file unreadable")
			panic(abortSig{})
		}
		rec.id, rec.data, rec.path = id, data, actual
		if traceHooks {
			fi, _ := os.Stat(r.path)
			tracef("TRACE snapshot path=%s actual=%s len=%d mainfile=%d dump=%x\n", path, actual, len(data), fi.Size(), dump.Hash)
		}
		rec.meta.SnapshotId = &id
		rec.meta.Reset = true
		r.probe("snapshot_file")
	case "stream":
		w := &yieldingWriter{t: t, failAt: tx.N, yield: true}
		err := r.db.StreamToWriter(w)
		if w.failed {
			// F11: the writer failed: the error must come back, nothing may have changed
			r.bump(&r.res.FaultsHit, "F11-writer")
			if err == nil {
				r.snapViolation("stream-error-swallowed", "StreamToWriter returned nil although write call %d failed", tx.N)
			}
			r.mu.Lock()
			r.forceChk = true
			r.mu.Unlock()
			t.Yield("snap.end", NeedNone)
			return
		}
		if err != nil {
			r.snapViolation("stream-error", "StreamToWriter failed: %v", err)
		}
		rec.data = append([]byte(nil), w.buf.Bytes()...)
		r.probe("snapshot_stream")
	default:
		panic("snapshot kind " + tx.Arg)
	}
	r.mu.Lock()
	r.snaps = append(r.snaps, rec)
	r.mu.Unlock()
	t.Yield("snap.end", NeedNone)
}

func (r *Run) execRestore(t *Task, idx int, tx *TxPlan) {
	t.Yield("restore.begin", NeedNone)
	r.mu.Lock()
	if len(r.snaps) == 0 {
		r.mu.Unlock()
		return
	}
	rec := r.snaps[len(r.snaps)-1]
	if tx.N >= 0 {
		rec = r.snaps[tx.N%len(r.snaps)]
	}
	r.mu.Unlock()
	failAt := -1
	if len(tx.Args) > 0 && tx.Args[0] == "fail" {
		failAt = 1 + (idx/4)%2 // never beyond the reads that deliver a single page: the stream is longer than that
	}
	panicked := false
	var pv any
	callSeq := r.s.NextSeq()
	func() {
		defer func() {
			if p := recover(); p != nil {
				if _, ok := p.(abortSig); ok {
					panic(p)
				}
				panicked, pv = true, p
			}
		}()
		r.mu.Lock()
		if r.restoring == nil {
			r.restoring = map[string]*pendingRestore{}
		}
		r.restoring[t.Name] = &pendingRestore{rec: rec}
		r.mu.Unlock()
		if tx.Arg == "bytes" && failAt < 0 {
			r.db.RestoreSnapshot(rec.data)
		} else {
			r.db.RestoreFromReader(&yieldingReader{t: t, data: rec.data, yields: 2 + idx%4, failAt: failAt})
		}
	}()
	r.mu.Lock()
	mine := r.restoring[t.Name]
	delete(r.restoring, t.Name)
	var paths []string
	for _, s := range r.snaps {
		if s.path != "" {
			paths = append(paths, s.path)
		}
	}
	r.mu.Unlock()
	// the snapshot files the application took are its own: nothing the library does may remove them
	for _, p := range paths {
		if _, err := os.Stat(p); err != nil {
			r.snapViolation("snapshot-file-vanished", "the snapshot file %s written by Snapshot() no longer exists after a restore: %v", filepath.Base(p), err)
		}
	}
	r.recordHist(histOp{Task: t.Name, Kind: "restore", Call: callSeq, Ret: r.s.NextSeq(), Nonce: rec.nonce, Effect: !panicked})
	if failAt >= 0 {
		r.bump(&r.res.FaultsHit, "F11-reader")
		if !panicked {
			r.snapViolation("restore-reader-failure-ignored", "RestoreFromReader returned normally although the reader failed mid-stream")
		}
		// contract: panic BEFORE the live database is touched: still usable, same content
		r.mu.Lock()
		r.forceChk = true
		r.mu.Unlock()
		t.Yield("restore.end", NeedNone)
		return
	}
	if panicked {
		r.snapViolation("restore-panicked", "restore of a good snapshot panicked: %v", pv)
	}
	// reported snapshot id == the id returned when the snapshot was taken
	var got *string
	var err error
	r.s.Atomic(func() { got, err = r.db.GetSnapshotId() })
	if err != nil {
		r.snapViolation("snapshot-id-error", "GetSnapshotId failed after restore: %v", err)
	}
	want := rec.meta.SnapshotId
	r.mu.Lock()
	overtaken := mine == nil || mine.seq != r.restores // another restore completed after this one
	r.mu.Unlock()
	if overtaken {
		r.probe("restore_overtaken_by_another")
	} else if strOr(got) != strOr(want) || (got == nil) != (want == nil) {
		r.snapViolation("snapshot-id-mismatch", "after restoring snapshot %q GetSnapshotId() = %q", strOr(want), strOr(got))
	}
	r.probe("restore_done")
	t.Yield("restore.end", NeedNone)
}

// onRestore is called from the reloadLock hook points inside RestoreFromReader.
func (r *Run) onRestore(point, task string) {
	r.mu.Lock()
	defer r.mu.Unlock()
	switch point {
	case "reload.lock.after":
		// openViews counts the harness's own read transactions; boltOpenReadTx asks bbolt itself, which also sees the
		// read transactions the library opens on its own (Snapshot, StreamToWriter, GetSnapshotId, ...)
		bolt := boltOpenReadTx(r.s.mainDb)
		if r.btx != nil || r.openViews > 0 || bolt > 0 {
			n := r.openViews
			if bolt > n {
				n = bolt
			}
			r.viols = append(r.viols, Violation{Props: []string{"C17"}, Oracle: "snapshot", Sig: "tx-open-while-restore-holds-lock",
				Detail: fmt.Sprintf("restore holds the reload lock while %d read transaction(s) / write transaction=%v are open", n, r.btx != nil)})
			// going on would close the database under those transactions (and block for real): unwind now
			r.abortFromHook = true
		}
	case "reload.rlock.blocked":
		// a caller starts to wait for the reload lock while the restore holds it. Whoever waits there must not have a
		// read transaction open on the database the restore is about to close (the restore would wait for that
		// transaction, the transaction for the restore)
		if n := boltOpenReadTx(r.s.mainDb); n > 0 {
			r.viols = append(r.viols, Violation{Props: []string{"C17"}, Oracle: "snapshot", Sig: "tx-open-while-restore-holds-lock",
				Detail: fmt.Sprintf("%s waits for the reload lock the restore holds while %d read transaction(s) are open on the database being replaced", task, n)})
			r.abortFromHook = true
		}
	case "reload.unlock.after":
		p := r.restoring[task]
		if p == nil {
			return
		}
		r.committed = p.rec.model
		r.committedNonce = p.rec.nonce
		r.meta = p.rec.meta
		r.expectRestored = p.rec
		r.forceChk = true
		r.restores++
		p.seq = r.restores
	}
}

// boltOpenReadTx reads bbolt's own count of open read transactions on the database a DbImpl currently points at.
// It is called from the hook point right after reloadLock.Lock(), on the goroutine that holds the lock, so the field
// is stable. The field is private to boltz: it is read by reflection, and when that is not possible (a renamed field)
// the answer is 0 = "nothing seen", never an alarm.
func boltOpenReadTx(d *boltz.DbImpl) (n int) {
	defer func() {
		if recover() != nil {
			n = 0
		}
	}()
	if d == nil {
		return 0
	}
	f := reflect.ValueOf(d).Elem().FieldByName("db")
	if !f.IsValid() || f.Kind() != reflect.Pointer || f.IsNil() {
		return 0
	}
	db, ok := reflect.NewAt(f.Type(), unsafe.Pointer(f.UnsafeAddr())).Elem().Interface().(*bbolt.DB)
	if !ok || db == nil {
		return 0
	}
	return db.Stats().OpenTxN
}

// checkRestoredDump: dump after restore == dump at snapshot time, ignoring exactly the markers the snapshot
// operation itself records.
func checkRestoredDump(rec *snapRec, now *Dump) *Violation {
	strip := func(d *Dump) []string {
		var out []string
		for _, l := range d.Lines {
			if strings.HasPrefix(l, `K /meta/"snapshotId"=`) || strings.HasPrefix(l, `K /meta/"resetTimeline"=`) || l == `B /"meta"` {
				continue
			}
			out = append(out, l)
		}
		return out
	}
	a, b := strip(rec.dump), strip(now)
	if strings.Join(a, "\n") == strings.Join(b, "\n") {
		return nil
	}
	diff := DiffDumps(&Dump{Lines: a}, &Dump{Lines: b}, 12)
	return &Violation{Props: []string{"C17"}, Oracle: "snapshot", Sig: "restored-content-differs",
		Detail: fmt.Sprintf("database after restore differs from the state at snapshot time (- at snapshot, + after restore):\n   %s", strings.Join(diff, "\n   "))}
}

func (r *Run) execTimeline(t *Task, modeName string) {
	t.Yield("timeline", NeedWriter)
	for round := 0; round < 2; round++ {
		calls := 0
		r.mu.Lock()
		fresh := fmt.Sprintf("timeline-%s-%d", t.Name, r.tlCounter)
		r.tlCounter++
		r.mu.Unlock()
		mode := boltz.TimelineModeDefault
		if round == 0 {
			switch modeName {
			case "initIfEmpty":
				mode = boltz.TimelineModeInitIfEmpty
			case "forceReset":
				mode = boltz.TimelineModeForceReset
			}
		}
		var got string
		var err error
		r.s.Atomic(func() {
			got, err = r.db.GetTimelineId(mode, func() (string, error) {
				calls++
				return fresh, nil
			})
		})
		if err != nil {
			r.snapViolation("timeline-error", "GetTimelineId failed: %v", err)
		}
		// the call may have waited for a restore before its transaction ran; nothing else ran between that
		// transaction and this point, so the model's markers are those the transaction must have seen
		r.mu.Lock()
		meta := r.meta
		r.mu.Unlock()
		wantCalls, want := 0, strOr(meta.TimelineId)
		fresh1 := meta.Reset || mode == boltz.TimelineModeForceReset || (mode == boltz.TimelineModeInitIfEmpty && meta.TimelineId == nil)
		if fresh1 {
			wantCalls, want = 1, fresh
		}
		if calls != wantCalls || got != want {
			r.snapViolation("timeline-id", "GetTimelineId(%s) (reset marker %v, stored id %q): id function called %d time(s), returned %q; expected %d call(s) and %q",
				mode, meta.Reset, strOr(meta.TimelineId), calls, got, wantCalls, want)
		}
		if fresh1 {
			r.probe("timeline_reset_consumed")
			r.mu.Lock()
			r.meta.Reset = false
			r.meta.TimelineId = &fresh
			r.mu.Unlock()
		}
		if round == 0 {
			t.Yield("timeline.again", NeedWriter)
		}
	}
}

func (r *Run) snapFinal() {
	for k, n := range r.restoreListenerN {
		if n != r.restores {
			r.viols = append(r.viols, Violation{Props: []string{"C17"}, Oracle: "snapshot", Sig: "restore-listener-count",
				Detail: fmt.Sprintf("%d restore(s) completed, restore listener #%d (of 3, all registered before the first restore) ran %d time(s)", r.restores, k, n)})
			break
		}
	}
}

var _ = bbolt.ErrBucketNotFound
