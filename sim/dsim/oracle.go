package dsim

// State oracles, evaluated inside one read transaction after every commit / abort / reopen / restore:
//   dump    full logical dump (boltz.Traverse) and its hash
//   mirror  the redundant state (unique / set indexes, fk back-references, link sets, ref-counts) recomputed
//           from the STORED entities (not from the model) and compared bucket by bucket with what is stored
//   model   stored entities through every store view compared with the reference model
//   trace   C06: no trace of a deleted id anywhere (repository's own ValidateDeleted + independent byte search)
//   views   C15: child-store lookups / cursors / three fixed query shapes

import (
	"bytes"
	"encoding/hex"
	"encoding/json"
	"fmt"
	"hash/fnv"
	"runtime/debug"
	"sort"
	"strings"

	"github.com/openziti/storage/ast"
	"github.com/openziti/storage/boltz"
	"go.etcd.io/bbolt"
)

type Violation struct {
	Props  []string `json:"props"`  // properties whose statement this contradicts
	Oracle string   `json:"oracle"` // which oracle
	Sig    string   `json:"sig"`    // stable signature (no run-specific data): used for minimisation and known findings
	Detail string   `json:"detail"`
}

func (v Violation) Has(prop string) bool {
	for _, p := range v.Props {
		if p == prop {
			return true
		}
	}
	return false
}

// ---------- dump ----------

type Dump struct {
	Lines []string
	Hash  uint64
}

type dumpVisitor struct{ lines []string }

func (d *dumpVisitor) VisitBucket(path string, key []byte, _ *bbolt.Bucket) bool {
	d.lines = append(d.lines, fmt.Sprintf("B %s/%q", path, key))
	return true
}
func (d *dumpVisitor) VisitKeyValue(path string, key, value []byte) bool {
	d.lines = append(d.lines, fmt.Sprintf("K %s/%q=%s", path, key, hex.EncodeToString(value)))
	return true
}

func TakeDump(tx *bbolt.Tx) *Dump {
	v := &dumpVisitor{}
	boltz.Traverse(tx, "", v)
	sort.Strings(v.lines)
	h := fnv.New64a()
	for _, l := range v.lines {
		h.Write([]byte(l))
		h.Write([]byte{'\n'})
	}
	return &Dump{Lines: v.lines, Hash: h.Sum64()}
}

// DiffDumps returns up to max differing lines ("-" only in a, "+" only in b).
func DiffDumps(a, b *Dump, max int) []string {
	am := map[string]bool{}
	for _, l := range a.Lines {
		am[l] = true
	}
	bm := map[string]bool{}
	for _, l := range b.Lines {
		bm[l] = true
	}
	var out []string
	for _, l := range a.Lines {
		if !bm[l] {
			out = append(out, "- "+l)
		}
	}
	for _, l := range b.Lines {
		if !am[l] {
			out = append(out, "+ "+l)
		}
	}
	if max > 0 && len(out) > max {
		out = out[:max]
	}
	return out
}

// ---------- raw helpers ----------

// extraBase: further segments of the stores' base path below the root bucket (schema variant, set per run before
// anything runs; the harness addresses raw buckets as root/<store>/... and the segments are spliced in here).
var extraBase []string

func withBase(path []string) []string {
	if len(extraBase) == 0 || len(path) == 0 || path[0] != rootBucket {
		return path
	}
	out := append([]string{rootBucket}, extraBase...)
	return append(out, path[1:]...)
}

func rawPath(tx *bbolt.Tx, path ...string) *bbolt.Bucket {
	path = withBase(path)
	b := tx.Bucket([]byte(path[0]))
	for _, p := range path[1:] {
		if b == nil {
			return nil
		}
		b = b.Bucket([]byte(p))
	}
	return b
}

func subBucketNames(b *bbolt.Bucket) []string {
	var r []string
	if b == nil {
		return nil
	}
	c := b.Cursor()
	for k, v := c.First(); k != nil; k, v = c.Next() {
		if v == nil && b.Bucket(k) != nil {
			r = append(r, string(k))
		}
	}
	return r
}

// typedKeys returns the keys of a list bucket with the type byte stripped.
func typedKeys(b *bbolt.Bucket) []string {
	var r []string
	if b == nil {
		return nil
	}
	c := b.Cursor()
	for k, _ := c.First(); k != nil; k, _ = c.Next() {
		if len(k) > 0 {
			r = append(r, string(k[1:]))
		} else {
			r = append(r, "")
		}
	}
	sort.Strings(r)
	return r
}

// rawString reads a typed string field; ok=false if absent or nil.
func rawString(b *bbolt.Bucket, field string) (string, bool) {
	if b == nil {
		return "", false
	}
	v := b.Get([]byte(field))
	if len(v) == 0 || boltz.FieldType(v[0]) != boltz.TypeString {
		return "", false
	}
	return string(v[1:]), true
}

func sameSet(a, b []string) bool {
	return joinSorted(a) == joinSorted(b)
}

// ---------- mirror ----------

type mirrorCtx struct {
	tx    *bbolt.Tx
	s     *Stores
	viols []Violation
}

func (m *mirrorCtx) bad(prop, sig, format string, args ...any) {
	props := []string{prop}
	if prop == "C03" && (strings.Contains(sig, ":people.") || strings.Contains(sig, ":staff.") || strings.Contains(sig, ":px.")) {
		// every entity of people is also an entity of its extended child store (and many are staff): "parent-store
		// indexes and constraints apply identically to child entities" (C15) is the same claim seen from the child side
		props = append(props, "C15")
	}
	m.viols = append(m.viols, Violation{Props: props, Oracle: "mirror", Sig: sig, Detail: fmt.Sprintf(format, args...)})
}

// checkUnique compares a unique index bucket with value->holder computed from stored entities.
func (m *mirrorCtx) checkUnique(label string, idxPath []string, holders map[string][]string, read func(val []byte) []byte) {
	ib := rawPath(m.tx, idxPath...)
	stored := map[string]string{}
	if ib != nil {
		c := ib.Cursor()
		for k, v := c.First(); k != nil; k, v = c.Next() {
			stored[string(k)] = string(v)
		}
	}
	for val, ids := range holders {
		if val == "" {
			continue
		}
		if len(ids) > 1 {
			sort.Strings(ids)
			m.bad("C03", "unique-two-holders:"+label, "unique index %s: value %q held by %v", label, val, ids)
			continue
		}
		if got, ok := stored[val]; !ok {
			m.bad("C03", "unique-missing:"+label, "unique index %s: no entry for value %q held by %s", label, val, ids[0])
		} else if got != ids[0] {
			m.bad("C03", "unique-wrong-target:"+label, "unique index %s: value %q maps to %q, holder is %q", label, val, got, ids[0])
		}
		if r := read([]byte(val)); string(r) != ids[0] {
			m.bad("C03", "unique-read:"+label, "unique index %s: Read(%q)=%q, holder is %q", label, val, r, ids[0])
		}
	}
	for val, id := range stored {
		if len(holders[val]) == 0 {
			m.bad("C03", "unique-stale:"+label, "unique index %s: stale entry %q -> %q (no entity holds that value)", label, val, id)
		}
	}
}

func (m *mirrorCtx) checkSetIndex(label string, idxPath []string, holders map[string][]string, idx boltz.SetReadIndex) {
	defer func() {
		// a read of the index that panics has not answered: reported like a wrong answer, never a harness crash
		if p := recover(); p != nil {
			switch p.(type) {
			case abortSig, injectedPanic:
				panic(p)
			}
			if !libraryPanic() {
				panic(p)
			}
			m.bad("C03", "set-index-read-panic:"+label, "set index %s: a read panicked: %v", label, p)
		}
	}()
	// values that no entity holds: every read style must answer "nobody"
	for _, absent := range [][]string{{"r-nobody"}, {"r-nobody", "r-nobody2"}} {
		if got := m.s.People.FindMatching(m.tx, idx, absent); len(got) != 0 {
			m.bad("C03", "set-index-read:"+label, "set index %s: FindMatching(%v)=%v, nobody holds these", label, absent, got)
		}
		if got := m.s.People.FindMatchingAnyOf(m.tx, idx, absent); len(got) != 0 {
			m.bad("C03", "set-index-read:"+label, "set index %s: FindMatchingAnyOf(%v)=%v, nobody holds these", label, absent, got)
		}
		for _, fwd := range []bool{true, false} {
			if got := cursorIds(m.s.People.IteratorMatchingAllOf(idx, absent)(m.tx, fwd)); len(got) != 0 {
				m.bad("C03", "set-index-read:"+label, "set index %s: IteratorMatchingAllOf(%v)=%v, nobody holds these", label, absent, got)
			}
			if got := cursorIds(m.s.People.IteratorMatchingAnyOf(idx, absent)(m.tx, fwd)); len(got) != 0 {
				m.bad("C03", "set-index-read:"+label, "set index %s: IteratorMatchingAnyOf(%v)=%v, nobody holds these", label, absent, got)
			}
			if got := cursorIds(idx.OpenValueCursor(m.tx, []byte(absent[0]), fwd)); len(got) != 0 {
				m.bad("C03", "set-index-read:"+label, "set index %s: OpenValueCursor(%q)=%v, nobody holds it", label, absent[0], got)
			}
		}
	}
	ib := rawPath(m.tx, idxPath...)
	stored := map[string][]string{}
	if ib != nil {
		c := ib.Cursor()
		for k, v := c.First(); k != nil; k, v = c.Next() {
			if v != nil {
				m.bad("C03", "set-index-nonbucket:"+label, "set index %s: plain key %q in index bucket", label, k)
				continue
			}
			ids := typedKeys(ib.Bucket(k))
			if len(ids) == 0 {
				m.bad("C03", "set-index-empty-key:"+label, "set index %s: key %q has no members (empty index key left behind)", label, k)
			}
			stored[string(k)] = ids
		}
	}
	for val, ids := range holders {
		if !sameSet(stored[val], ids) {
			m.bad("C03", "set-index-mismatch:"+label, "set index %s: value %q indexed for %v, held by %v", label, val, stored[val], ids)
		}
		var viaRead []string
		idx.Read(m.tx, []byte(val), func(v []byte) { viaRead = append(viaRead, string(v)) })
		if !sameSet(viaRead, ids) {
			m.bad("C03", "set-index-read:"+label, "set index %s: Read(%q)=%v, held by %v", label, val, viaRead, ids)
		}
	}
	for val, ids := range stored {
		if len(holders[val]) == 0 && len(ids) > 0 {
			m.bad("C03", "set-index-stale:"+label, "set index %s: stale value %q -> %v", label, val, ids)
		}
	}
	for val, ids := range holders {
		for _, fwd := range []bool{true, false} {
			if got := cursorIds(idx.OpenValueCursor(m.tx, []byte(val), fwd)); !sameSet(got, ids) {
				m.bad("C03", "set-index-read:"+label, "set index %s: OpenValueCursor(%q, forward=%v)=%v, held by %v", label, val, fwd, got, ids)
			}
		}
		if got := m.s.People.FindMatching(m.tx, idx, []string{val}); !sameSet(got, ids) {
			m.bad("C03", "set-index-read:"+label, "set index %s: FindMatching(%q)=%v, held by %v", label, val, got, ids)
		}
	}
	{
		var all []string
		for val := range holders {
			all = append(all, val)
		}
		sort.Strings(all)
		if len(all) >= 2 {
			both := map[string]bool{}
			any := map[string]bool{}
			for _, id := range holders[all[0]] {
				any[id] = true
				if containsStr(holders[all[1]], id) {
					both[id] = true
				}
			}
			for _, id := range holders[all[1]] {
				any[id] = true
			}
			if got := m.s.People.FindMatching(m.tx, idx, all[:2]); !sameSet(got, sortedKeys(both)) {
				m.bad("C03", "set-index-read:"+label, "set index %s: FindMatching(%v)=%v, entities holding both are %v", label, all[:2], got, sortedKeys(both))
			}
			if got := m.s.People.FindMatchingAnyOf(m.tx, idx, all[:2]); !sameSet(got, sortedKeys(any)) {
				m.bad("C03", "set-index-read:"+label, "set index %s: FindMatchingAnyOf(%v)=%v, entities holding either are %v", label, all[:2], got, sortedKeys(any))
			}
			if got := cursorIds(m.s.People.IteratorMatchingAllOf(idx, all[:2])(m.tx, true)); !sameSet(got, sortedKeys(both)) {
				m.bad("C03", "set-index-read:"+label, "set index %s: IteratorMatchingAllOf(%v)=%v, entities holding both are %v", label, all[:2], got, sortedKeys(both))
			}
			if got := cursorIds(m.s.People.IteratorMatchingAnyOf(idx, all[:2])(m.tx, true)); !sameSet(got, sortedKeys(any)) {
				m.bad("C03", "set-index-read:"+label, "set index %s: IteratorMatchingAnyOf(%v)=%v, entities holding either are %v", label, all[:2], got, sortedKeys(any))
			}
		}
	}
	for _, fwd := range []bool{true, false} {
		var want []string
		for val := range holders {
			want = append(want, val)
		}
		if got := cursorIds(idx.OpenKeyCursor(m.tx, fwd)); !sameSet(got, want) {
			m.bad("C03", "set-index-keys:"+label, "set index %s: OpenKeyCursor(forward=%v)=%v, values in use %v", label, fwd, got, want)
		}
	}
	var keys []string
	idx.ReadKeys(m.tx, func(v []byte) { keys = append(keys, string(v)) })
	var want []string
	for val := range holders {
		want = append(want, val)
	}
	if !sameSet(keys, want) {
		m.bad("C03", "set-index-keys:"+label, "set index %s: ReadKeys=%v, values in use %v", label, keys, want)
	}
}

// checkBackrefs compares, for every target entity, its back-reference bucket with the referrers computed from
// stored entities; and every non-empty reference must name an existing target.
func (m *mirrorCtx) checkBackrefs(label string, targetStore, field string, targets []string, refs map[string]string, hasBackref bool) {
	want := map[string][]string{}
	tset := map[string]bool{}
	for _, t := range targets {
		tset[t] = true
	}
	var refIds []string
	for id := range refs {
		refIds = append(refIds, id)
	}
	sort.Strings(refIds)
	for _, id := range refIds {
		target := refs[id]
		if target == "" {
			continue
		}
		if !tset[target] {
			m.bad("C04", "fk-dangling:"+label, "fk %s: %s references %s %q which does not exist", label, id, targetStore, target)
			continue
		}
		want[target] = append(want[target], id)
	}
	if !hasBackref {
		return
	}
	for _, t := range targets {
		got := typedKeys(rawPath(m.tx, rootBucket, targetStore, t, field))
		if !sameSet(got, want[t]) {
			m.bad("C04", "fk-backref-mismatch:"+label, "fk %s: %s %q back-references %v, referrers are %v", label, targetStore, t, got, want[t])
		}
		api := m.s.ByName(targetStore).GetRelatedEntitiesIdList(m.tx, t, field)
		if !sameSet(api, want[t]) {
			m.bad("C04", "fk-backref-api:"+label, "fk %s: GetRelatedEntitiesIdList(%q,%s)=%v, referrers are %v", label, t, field, api, want[t])
		}
		for _, fwd := range []bool{true, false} {
			if got := cursorIds(m.s.ByName(targetStore).GetRelatedEntitiesCursor(m.tx, t, field, fwd)); !sameSet(got, want[t]) {
				m.bad("C04", "fk-backref-api:"+label, "fk %s: GetRelatedEntitiesCursor(%q,%s,forward=%v)=%v, referrers are %v", label, t, field, fwd, got, want[t])
			}
		}
		for _, id := range refIds {
			if got := m.s.ByName(targetStore).IsEntityRelated(m.tx, t, field, id); got != containsStr(want[t], id) {
				m.bad("C04", "fk-backref-api:"+label, "fk %s: IsEntityRelated(%q,%s,%q)=%v, referrers are %v", label, t, field, id, got, want[t])
			}
		}
	}
}

// Mirror recomputes all redundant state from the stored entities.
// libraryPanic reports whether the panic being recovered was raised by a frame outside the harness and the Go
// runtime (i.e. by the library under test or bbolt). A panic raised by harness code stays a harness failure.
func libraryPanic() bool {
	st := string(debug.Stack())
	i := strings.LastIndex(st, "\npanic(")
	if i < 0 {
		return false
	}
	lines := strings.Split(st[i+1:], "\n")
	// lines: "panic(...)", "\t<file>", then pairs of (function, "\t<file>:<line> +0x..")
	for j := 2; j+1 < len(lines); j += 2 {
		file := strings.TrimSpace(lines[j+1])
		if strings.Contains(file, "/src/runtime/") || strings.Contains(file, "/src/internal/") {
			continue
		}
		return !strings.Contains(file, "/sim/dsim/")
	}
	return false
}

// guardOracle runs an oracle; a panic raised inside the library while the oracle reads through the public API is
// a wrong answer of that API for the properties the oracle decides.
func guardOracle(name string, props []string, f func() []Violation) (out []Violation) {
	defer func() {
		if p := recover(); p != nil {
			switch p.(type) {
			case abortSig, injectedPanic:
				panic(p)
			}
			if !libraryPanic() {
				panic(p)
			}
			out = append(out, Violation{Props: props, Oracle: name, Sig: "read-panic:" + name, Detail: fmt.Sprintf("a read through the public API panicked while the %s oracle examined the committed state: %v", name, p)})
		}
	}()
	return f()
}

func Mirror(tx *bbolt.Tx, s *Stores) []Violation {
	m := &mirrorCtx{tx: tx, s: s}
	depts := subBucketNames(rawPath(tx, rootBucket, StDepts))
	people := subBucketNames(rawPath(tx, rootBucket, StPeople))
	badges := subBucketNames(rawPath(tx, rootBucket, StBadges))
	notes := subBucketNames(rawPath(tx, rootBucket, StNotes))
	tickets := subBucketNames(rawPath(tx, rootBucket, StTickets))
	groups := subBucketNames(rawPath(tx, rootBucket, StGroups))
	memos := subBucketNames(rawPath(tx, rootBucket, StMemos))
	reviews := subBucketNames(rawPath(tx, rootBucket, StReviews))
	folders := subBucketNames(rawPath(tx, rootBucket, StFolders))
	desks := subBucketNames(rawPath(tx, rootBucket, StDesks))
	var staffIds []string // the people that have staff data: the entities of the staff view
	for _, id := range people {
		if rawPath(tx, rootBucket, StPeople, id, StStaff) != nil {
			staffIds = append(staffIds, id)
		}
	}

	// --- unique + set indexes (C03)
	holders := func(store string, ids []string, field string, sub ...string) map[string][]string {
		r := map[string][]string{}
		for _, id := range ids {
			p := append([]string{rootBucket, store, id}, sub...)
			if v, ok := rawString(rawPath(tx, p...), field); ok && v != "" {
				r[v] = append(r[v], id)
			}
		}
		return r
	}
	m.checkUnique("depts.name", []string{rootBucket, boltz.IndexesBucket, StDepts, "name"}, holders(StDepts, depts, "name"), func(v []byte) []byte { return s.Depts.idxName.Read(tx, v) })
	m.checkUnique("people.name", []string{rootBucket, boltz.IndexesBucket, StPeople, "name"}, holders(StPeople, people, "name"), func(v []byte) []byte { return s.People.idxName.Read(tx, v) })
	m.checkUnique("people.nick", []string{rootBucket, boltz.IndexesBucket, StPeople, "alias"}, holders(StPeople, people, "nick"), func(v []byte) []byte { return s.People.idxNick.Read(tx, v) })
	if s.PX.idxMemo != nil {
		m.checkUnique("px.memo", []string{rootBucket, boltz.IndexesBucket, StPeople, "memo"}, holders(StPeople, people, "memo", StPX), func(v []byte) []byte { return s.PX.idxMemo.Read(tx, v) })
	}
	m.checkUnique("staff.badgeNo", []string{rootBucket, boltz.IndexesBucket, StPeople, "badgeNo"}, holders(StPeople, people, "badgeNo", StStaff), func(v []byte) []byte { return s.Staff.idxBadgeNo.Read(tx, v) })
	roleHolders := map[string][]string{}
	for _, id := range people {
		for _, r := range typedKeys(rawPath(tx, rootBucket, StPeople, id, "roles")) {
			roleHolders[r] = append(roleHolders[r], id)
		}
	}
	m.checkSetIndex("people.roles", []string{rootBucket, boltz.IndexesBucket, StPeople, "roles"}, roleHolders, s.People.idxRoles)

	// --- foreign keys (C04)
	refsOf := func(store string, ids []string, field string) map[string]string {
		r := map[string]string{}
		for _, id := range ids {
			v, _ := rawString(rawPath(tx, rootBucket, store, id), field)
			r[id] = v
		}
		return r
	}
	m.checkBackrefs("people.dept->depts.members", StDepts, "members", depts, refsOf(StPeople, people, "dept"), true)
	m.checkBackrefs("people.mentor->people.mentees", StPeople, "mentees", people, refsOf(StPeople, people, "mentor"), true)
	m.checkBackrefs("badges.owner->people.badges", StPeople, "badges", people, refsOf(StBadges, badges, "owner"), true)
	m.checkBackrefs("notes.about->people", StPeople, "", people, refsOf(StNotes, notes, "about"), false)
	m.checkBackrefs("tickets.assignee->people", StPeople, "", people, refsOf(StTickets, tickets, "assignee"), false)
	m.checkBackrefs("memos.topic->groups", StGroups, "", groups, refsOf(StMemos, memos, "topic"), false)
	sponsors := map[string]string{}
	for _, id := range people {
		for _, child := range []string{StStaff, StPX} {
			if v, ok := rawString(rawPath(tx, rootBucket, StPeople, id, child), "sponsor"); ok && v != "" {
				sponsors[child+":"+id] = v
			}
		}
	}
	m.checkBackrefs("staff/px.sponsor->groups", StGroups, "", groups, sponsors, false)
	m.checkBackrefs("desks.occupant->people.desks", StPeople, "desks", people, refsOf(StDesks, desks, "occupant"), true)
	m.checkBackrefs("folders.parent->folders", StFolders, "", folders, refsOf(StFolders, folders, "parent"), false)
	m.checkBackrefs("reviews.reviewer->staff", StStaff, "", staffIds, refsOf(StReviews, reviews, "reviewer"), false)
	for _, id := range people {
		if v, _ := rawString(rawPath(tx, rootBucket, StPeople, id), "dept"); v == "" {
			m.bad("C04", "fk-null-nonnullable:people.dept", "person %q stored with empty non-nullable dept", id)
		}
	}
	for _, id := range badges {
		if v, _ := rawString(rawPath(tx, rootBucket, StBadges, id), "owner"); v == "" {
			m.bad("C04", "fk-null-nonnullable:badges.owner", "badge %q stored with empty non-nullable owner", id)
		}
	}
	for _, id := range memos {
		if v, _ := rawString(rawPath(tx, rootBucket, StMemos, id), "topic"); v == "" {
			m.bad("C04", "fk-null-nonnullable:memos.topic", "memo %q stored with empty non-nullable topic", id)
		}
	}

	// --- the link collection whose person side lives in the child store (C05; also C15: "indexes and constraints apply
	// identically to child entities")
	for _, p := range people {
		ls := typedKeys(rawPath(tx, rootBucket, StPeople, p, StStaff, "leading"))
		for _, g := range ls {
			if !containsStr(groups, g) {
				m.bad("C05", "link-dangling:staff.leading", "staff %q linked to group %q which does not exist", p, g)
				continue
			}
			if back := typedKeys(rawPath(tx, rootBucket, StGroups, g, "leads")); !containsStr(back, p) {
				m.bad("C05", "link-one-sided:staff.leading", "staff %q lists group %q but the group does not list it (leads=%v)", p, g, back)
			}
		}
		if rawPath(tx, rootBucket, StPeople, p, StStaff) != nil {
			if api := s.Staff.lcLeading.GetLinks(tx, p); !sameSet(api, ls) {
				m.bad("C05", "link-api:staff.leading", "GetLinks(staff %q)=%v, bucket holds %v", p, api, ls)
			}
		}
	}
	for _, g := range groups {
		ps := typedKeys(rawPath(tx, rootBucket, StGroups, g, "leads"))
		for _, p := range ps {
			if rawPath(tx, rootBucket, StPeople, p, StStaff) == nil {
				m.bad("C05", "link-dangling:groups.leads", "group %q lists staff %q which does not exist", g, p)
				continue
			}
			if back := typedKeys(rawPath(tx, rootBucket, StPeople, p, StStaff, "leading")); !containsStr(back, g) {
				m.bad("C05", "link-one-sided:groups.leads", "group %q lists staff %q but the staff entity does not list the group (leading=%v)", g, p, back)
			}
		}
		if api := s.Groups.lcLeads.GetLinks(tx, g); !sameSet(api, ps) {
			m.bad("C05", "link-api:groups.leads", "GetLinks(group %q)=%v, bucket holds %v", g, api, ps)
		}
	}

	// --- links (C05)
	gset := map[string]bool{}
	for _, g := range groups {
		gset[g] = true
	}
	pset := map[string]bool{}
	for _, p := range people {
		pset[p] = true
	}
	for _, p := range people {
		gs := typedKeys(rawPath(tx, rootBucket, StPeople, p, "groups"))
		for _, g := range gs {
			if !gset[g] {
				m.bad("C05", "link-dangling:people.groups", "person %q linked to group %q which does not exist", p, g)
				continue
			}
			back := typedKeys(rawPath(tx, rootBucket, StGroups, g, "members"))
			if !containsStr(back, p) {
				m.bad("C05", "link-one-sided:people.groups", "person %q lists group %q but the group does not list the person (members=%v)", p, g, back)
			}
		}
		if api := s.People.lcGroups.GetLinks(tx, p); !sameSet(api, gs) {
			m.bad("C05", "link-api:people.groups", "GetLinks(person %q)=%v, bucket holds %v", p, api, gs)
		}
		var it []string
		for c := s.People.lcGroups.IterateLinks(tx, []byte(p)); c.IsValid(); c.Next() {
			it = append(it, string(c.Current()))
		}
		if !sameSet(it, gs) {
			m.bad("C05", "link-api:people.groups", "IterateLinks(person %q)=%v, bucket holds %v", p, it, gs)
		}
		for _, g := range groups {
			if s.People.lcGroups.IsLinked(tx, []byte(p), []byte(g)) != containsStr(gs, g) {
				m.bad("C05", "link-api:people.groups", "IsLinked(person %q, group %q) disagrees with bucket %v", p, g, gs)
			}
		}
	}
	for _, g := range groups {
		ps := typedKeys(rawPath(tx, rootBucket, StGroups, g, "members"))
		for _, p := range ps {
			if !pset[p] {
				m.bad("C05", "link-dangling:groups.members", "group %q lists person %q which does not exist", g, p)
				continue
			}
			back := typedKeys(rawPath(tx, rootBucket, StPeople, p, "groups"))
			if !containsStr(back, g) {
				m.bad("C05", "link-one-sided:groups.members", "group %q lists person %q but the person does not list the group (groups=%v)", g, p, back)
			}
		}
		if api := s.Groups.lcMembers.GetLinks(tx, g); !sameSet(api, ps) {
			m.bad("C05", "link-api:groups.members", "GetLinks(group %q)=%v, bucket holds %v", g, api, ps)
		}
		for _, p := range people {
			if s.Groups.lcMembers.IsLinked(tx, []byte(g), []byte(p)) != containsStr(ps, p) {
				m.bad("C05", "link-api:groups.members", "IsLinked(group %q, person %q) disagrees with bucket %v", g, p, ps)
			}
		}
	}
	// ref-counted
	rcOf := func(store, id, field string) map[string]int32 {
		r := map[string]int32{}
		b := rawPath(tx, rootBucket, store, id, field)
		if b == nil {
			return r
		}
		c := b.Cursor()
		for k, v := c.First(); k != nil; k, v = c.Next() {
			cnt := int32(-999)
			if len(v) == 5 && boltz.FieldType(v[0]) == boltz.TypeInt32 {
				if p := boltz.BytesToInt32(v[1:]); p != nil {
					cnt = *p
				}
			}
			key := ""
			if len(k) > 0 {
				key = string(k[1:])
			}
			r[key] = cnt
		}
		return r
	}
	for _, p := range people {
		for g, c := range rcOf(StPeople, p, "kudos") {
			if !gset[g] {
				m.bad("C05", "rc-dangling:people.kudos", "person %q holds a count for group %q which does not exist", p, g)
				continue
			}
			other, ok := rcOf(StGroups, g, "kudosFrom")[p]
			if c <= 0 {
				m.bad("C05", "rc-nonpositive:people.kudos", "person %q holds count %d for group %q", p, c, g)
			}
			if !ok || other != c {
				m.bad("C05", "rc-disagree:people.kudos", "person %q -> group %q count %d, other side %d (present=%v)", p, g, c, other, ok)
			}
			a, b := s.People.rcKudos.GetLinkCounts(tx, []byte(p), []byte(g))
			if a == nil || b == nil || *a != c || *b != c {
				m.bad("C05", "rc-api:people.kudos", "GetLinkCounts(%q,%q) disagrees with stored count %d", p, g, c)
			}
			if x := s.Groups.rcKudosFrom.GetLinkCount(tx, []byte(g), []byte(p)); x == nil || *x != c {
				m.bad("C05", "rc-api:groups.kudosFrom", "GetLinkCount(%q,%q)=%v, stored count %d", g, p, i32(x), c)
			}
		}
	}
	for _, p := range people {
		var want []string
		for g := range rcOf(StPeople, p, "kudos") {
			want = append(want, g)
		}
		for _, fwd := range []bool{true, false} {
			if got := cursorIds(s.People.rcKudos.IterateLinks(tx, []byte(p), fwd)); !sameSet(got, want) {
				m.bad("C05", "rc-api:people.kudos", "rc IterateLinks(%q, forward=%v)=%v, bucket holds %v", p, fwd, got, want)
			}
		}
	}
	for _, g := range groups {
		for p, c := range rcOf(StGroups, g, "kudosFrom") {
			if !pset[p] {
				m.bad("C05", "rc-dangling:groups.kudosFrom", "group %q holds a count for person %q which does not exist", g, p)
				continue
			}
			other, ok := rcOf(StPeople, p, "kudos")[g]
			if c <= 0 {
				m.bad("C05", "rc-nonpositive:groups.kudosFrom", "group %q holds count %d for person %q", g, c, p)
			}
			if !ok || other != c {
				m.bad("C05", "rc-disagree:groups.kudosFrom", "group %q -> person %q count %d, other side %d (present=%v)", g, p, c, other, ok)
			}
		}
	}
	return m.viols
}

func containsStr(l []string, s string) bool {
	for _, e := range l {
		if e == s {
			return true
		}
	}
	return false
}

// ---------- model comparison ----------

// propsForField says which property a difference in a person field belongs to.
func propsForPersonDiff(a, b string) []string {
	// a, b are PersonSnap JSON; decode and compare fieldwise
	var x, y PersonSnap
	if jsonUnmarshal(a, &x) != nil || jsonUnmarshal(b, &y) != nil {
		return []string{"C07"}
	}
	set := map[string]bool{}
	if x.Name != y.Name || strOr(x.Nick) != strOr(y.Nick) || (x.Nick == nil) != (y.Nick == nil) || joinSorted(x.Roles) != joinSorted(y.Roles) || x.BadgeNo != y.BadgeNo {
		set["C03"] = true
	}
	if x.Dept != y.Dept || strOr(x.Mentor) != strOr(y.Mentor) || (x.Mentor == nil) != (y.Mentor == nil) {
		set["C04"] = true
	}
	if joinSorted(x.Groups) != joinSorted(y.Groups) {
		set["C05"] = true
	}
	if x.Sys != y.Sys {
		set["C16"] = true
	}
	if x.Kind != StPeople {
		set["C15"] = true
	}
	if x.Level != y.Level || x.Memo != y.Memo || x.Salary != y.Salary || x.Rate != y.Rate || x.Hired != y.Hired || strOr(x.Sponsor) != strOr(y.Sponsor) {
		set["C15"] = true
	}
	set["C07"] = true // a committed transaction whose stored state is not the complete effect of its operations
	var r []string
	for k := range set {
		r = append(r, k)
	}
	sort.Strings(r)
	return r
}

// CompareModel loads every entity through every store view and compares with the model.
func CompareModel(tx *bbolt.Tx, s *Stores, m *Model, universe map[string][]string) []Violation {
	var out []Violation
	bad := func(props []string, sig, format string, args ...any) {
		out = append(out, Violation{Props: props, Oracle: "model", Sig: sig, Detail: fmt.Sprintf(format, args...)})
	}
	present := map[string][]string{
		StDepts: subBucketNames(rawPath(tx, rootBucket, StDepts)), StPeople: subBucketNames(rawPath(tx, rootBucket, StPeople)),
		StBadges: subBucketNames(rawPath(tx, rootBucket, StBadges)), StNotes: subBucketNames(rawPath(tx, rootBucket, StNotes)),
		StTickets: subBucketNames(rawPath(tx, rootBucket, StTickets)), StGroups: subBucketNames(rawPath(tx, rootBucket, StGroups)),
		StMemos: subBucketNames(rawPath(tx, rootBucket, StMemos)), StReviews: subBucketNames(rawPath(tx, rootBucket, StReviews)),
		StFolders: subBucketNames(rawPath(tx, rootBucket, StFolders)), StDesks: subBucketNames(rawPath(tx, rootBucket, StDesks)),
	}
	modelIds := map[string][]string{}
	for id := range m.Depts {
		modelIds[StDepts] = append(modelIds[StDepts], id)
	}
	for id := range m.People {
		modelIds[StPeople] = append(modelIds[StPeople], id)
	}
	for id := range m.Badges {
		modelIds[StBadges] = append(modelIds[StBadges], id)
	}
	for id := range m.Notes {
		modelIds[StNotes] = append(modelIds[StNotes], id)
	}
	for id := range m.Tickets {
		modelIds[StTickets] = append(modelIds[StTickets], id)
	}
	for id := range m.Groups {
		modelIds[StGroups] = append(modelIds[StGroups], id)
	}
	for id := range m.Memos {
		modelIds[StMemos] = append(modelIds[StMemos], id)
	}
	for id := range m.Reviews {
		modelIds[StReviews] = append(modelIds[StReviews], id)
	}
	for id := range m.Folders {
		modelIds[StFolders] = append(modelIds[StFolders], id)
	}
	for id := range m.Desks {
		modelIds[StDesks] = append(modelIds[StDesks], id)
	}
	presenceProps := map[string][]string{
		StDepts: {"C04", "C06", "C07"}, StPeople: {"C04", "C06", "C07", "C15"}, StBadges: {"C04", "C06", "C07"},
		StNotes: {"C04", "C06", "C07"}, StTickets: {"C04", "C06", "C07"}, StGroups: {"C05", "C06", "C07"},
		StMemos: {"C04", "C06", "C07"}, StReviews: {"C04", "C06", "C07"}, StFolders: {"C04", "C06", "C07"}, StDesks: {"C04", "C06", "C07"},
	}
	for _, st := range []string{StDepts, StPeople, StBadges, StNotes, StTickets, StGroups, StMemos, StReviews, StFolders, StDesks} {
		if !sameSet(present[st], modelIds[st]) {
			a := append([]string(nil), present[st]...)
			b := append([]string(nil), modelIds[st]...)
			sort.Strings(a)
			sort.Strings(b)
			bad(presenceProps[st], "presence:"+st, "store %s holds %q, the committed history implies %q", st, a, b)
		}
	}
	for _, st := range AllStores {
		ids := map[string]bool{}
		for _, id := range universe[st] {
			ids[id] = true
		}
		base := st
		if st == StStaff || st == StPX {
			base = StPeople
		}
		for _, id := range present[base] {
			ids[id] = true
		}
		var sorted []string
		for id := range ids {
			sorted = append(sorted, id)
		}
		sort.Strings(sorted)
		for _, id := range sorted {
			got, err := findSnap(s, tx, st, id)
			if err != nil {
				bad([]string{"C07"}, "load-error:"+st, "FindById(%s,%q) failed: %v", st, id, err)
				continue
			}
			want := m.snapOf(st, id)
			if got != want {
				props := []string{"C07"}
				switch st {
				case StPeople, StStaff, StPX:
					if got != "" && want != "" {
						props = propsForPersonDiff(got, want)
					} else {
						props = []string{"C06", "C07", "C15"}
					}
				case StBadges, StNotes, StTickets, StMemos, StReviews, StFolders, StDesks:
					props = []string{"C04", "C07"}
				case StDepts:
					props = []string{"C03", "C07"}
				case StGroups:
					props = []string{"C05", "C07"}
				}
				bad(props, "entity-mismatch:"+st, "store %s id %q:\n   stored: %s\n   model:  %s", st, id, orNone(got), orNone(want))
			}
		}
	}
	// the second link collection is not part of any entity either: stored sets against the model
	for _, p := range present[StPeople] {
		var want []string
		for k := range m.Leads {
			if k.P == p {
				want = append(want, k.G)
			}
		}
		if got := typedKeys(rawPath(tx, rootBucket, StPeople, p, StStaff, "leading")); !sameSet(got, want) {
			bad([]string{"C05", "C07", "C15"}, "link-model:staff.leading", "staff %q leads %v, the committed history implies %v", p, got, want)
		}
	}
	// ref-counted links are not part of any entity: compare directly
	for k, c := range m.Kudos {
		a, b := s.People.rcKudos.GetLinkCounts(tx, []byte(k.P), []byte(k.G))
		if a == nil || b == nil || int(*a) != c || int(*b) != c {
			bad([]string{"C05", "C07"}, "rc-model", "kudos %q->%q: model %d, stored %v/%v", k.P, k.G, c, i32(a), i32(b))
		}
	}
	for _, p := range present[StPeople] {
		for _, g := range typedKeys(rawPath(tx, rootBucket, StPeople, p, "kudos")) {
			if _, ok := m.Kudos[pair{p, g}]; !ok {
				bad([]string{"C05", "C07"}, "rc-model", "kudos %q->%q stored but the committed history implies none", p, g)
			}
		}
	}
	return out
}

func i32(p *int32) string {
	if p == nil {
		return "nil"
	}
	return fmt.Sprint(*p)
}

func orNone(s string) string {
	if s == "" {
		return "(absent)"
	}
	return s
}

// ---------- C06: no trace ----------

type traceVisitor struct {
	id, typed []byte
	hits      []string
}

func (v *traceVisitor) check(where string, b []byte) {
	if bytes.Equal(b, v.id) || bytes.Equal(b, v.typed) {
		v.hits = append(v.hits, where)
	}
}
func (v *traceVisitor) VisitBucket(path string, key []byte, _ *bbolt.Bucket) bool {
	v.check(fmt.Sprintf("bucket name under %s", path), key)
	return true
}
func (v *traceVisitor) VisitKeyValue(path string, key, value []byte) bool {
	v.check(fmt.Sprintf("key under %s", path), key)
	v.check(fmt.Sprintf("value of %s/%q", path, key), value)
	return true
}

// NoTrace checks that id occurs nowhere: the repository's own oracle and an independent byte search.
func NoTrace(tx *bbolt.Tx, id string, extraProps ...string) []Violation {
	var out []Violation
	props := append([]string{"C06"}, extraProps...)
	if err := boltz.ValidateDeleted(tx, id); err != nil {
		out = append(out, Violation{Props: props, Oracle: "trace", Sig: "validate-deleted", Detail: fmt.Sprintf("ValidateDeleted(%q): %v", id, err)})
	}
	v := &traceVisitor{id: []byte(id), typed: boltz.PrependFieldType(boltz.TypeString, []byte(id))}
	boltz.Traverse(tx, "", v)
	if len(v.hits) > 0 {
		where := v.hits[0]
		kind := "value"
		if strings.HasPrefix(where, "bucket") {
			kind = "bucket"
		} else if strings.HasPrefix(where, "key") {
			kind = "key"
		}
		// the path names which structure kept the trace
		out = append(out, Violation{Props: props, Oracle: "trace", Sig: "trace-" + kind, Detail: fmt.Sprintf("deleted id %q still occurs: %s", id, strings.Join(v.hits, "; "))})
	}
	return out
}

// ---------- C15: child store views ----------

func cursorIds(c ast.SetCursor) []string {
	var r []string
	for ; c.IsValid(); c.Next() {
		r = append(r, string(c.Current()))
	}
	return r
}

func ChildViews(tx *bbolt.Tx, s *Stores, m *Model, names, roles []string) []Violation {
	var out []Violation
	bad := func(sig, format string, args ...any) {
		out = append(out, Violation{Props: []string{"C15"}, Oracle: "views", Sig: sig, Detail: fmt.Sprintf(format, args...)})
	}
	var all, staff, px []string
	for id, p := range m.People {
		all = append(all, id)
		if p.HasStaff {
			staff = append(staff, id)
		}
		if p.HasPX {
			px = append(px, id)
		}
	}
	sort.Strings(all)
	sort.Strings(staff)
	sort.Strings(px)
	type view struct {
		name     string
		store    boltz.Store
		listed   []string // ids its lookups / queries must return
		validIds []string
	}
	for _, id := range U.People {
		var le PX
		found, lerr := s.PX.LoadEntity(tx, id, &le)
		if lerr != nil || found != containsStr(all, id) || (found && le.Name != m.People[id].Name) {
			bad("load-entity:"+StPX, "px.LoadEntity(%q) found=%v err=%v, parent entity listed=%v", id, found, lerr, containsStr(all, id))
		}
		var ls Staff
		found, lerr = s.Staff.LoadEntity(tx, id, &ls)
		if lerr != nil || found != containsStr(staff, id) {
			bad("load-entity:"+StStaff, "staff.LoadEntity(%q) found=%v err=%v, has staff data=%v", id, found, lerr, containsStr(staff, id))
		}
		_, e1 := s.People.LoadById(tx, id)
		_, e2 := s.Staff.LoadById(tx, id)
		_, e3 := s.PX.LoadById(tx, id)
		if (e1 == nil) != containsStr(all, id) || (e1 != nil && !boltz.IsErrNotFoundErr(e1)) {
			bad("load-by-id:"+StPeople, "people.LoadById(%q) err=%v, entity listed=%v", id, e1, containsStr(all, id))
		}
		if (e2 == nil) != containsStr(staff, id) || (e2 != nil && !boltz.IsErrNotFoundErr(e2)) {
			bad("load-by-id:"+StStaff, "staff.LoadById(%q) err=%v, has staff data=%v", id, e2, containsStr(staff, id))
		}
		if (e3 == nil) != containsStr(all, id) || (e3 != nil && !boltz.IsErrNotFoundErr(e3)) {
			bad("load-by-id:"+StPX, "px.LoadById(%q) err=%v, parent entity listed=%v", id, e3, containsStr(all, id))
		}
	}
	for _, v := range []view{{StStaff, s.Staff, staff, staff}, {StPX, s.PX, all, px}, {StPeople, s.People, all, all}} {
		for _, id := range all {
			want := containsStr(v.validIds, id)
			if got := v.store.IsEntityPresent(tx, id); got != want {
				bad("is-present:"+v.name, "%s.IsEntityPresent(%q)=%v, want %v", v.name, id, got, want)
			}
		}
		if got := cursorIds(v.store.IterateIds(tx, ast.BoolNodeTrue)); !sameSet(got, v.listed) {
			bad("iterate-ids:"+v.name, "%s.IterateIds=%q, want %q", v.name, got, v.listed)
		}
		if got := cursorIds(v.store.IterateValidIds(tx, ast.BoolNodeTrue)); !sameSet(got, v.validIds) {
			bad("iterate-valid-ids:"+v.name, "%s.IterateValidIds=%q, want %q", v.name, got, v.validIds)
		}
		for _, id := range all {
			c := v.store.IterateValidIds(tx, ast.BoolNodeTrue)
			c.Seek([]byte(id))
			want := ""
			for _, l := range v.validIds {
				if l >= id {
					want = l
					break
				}
			}
			got := ""
			if c.IsValid() {
				got = string(c.Current())
			}
			if got != want {
				bad("seek-valid:"+v.name, "%s.IterateValidIds().Seek(%q) is at %q, want %q (valid ids %q)", v.name, id, got, want, v.validIds)
			}
		}
		// cursor Seek: positions at the first listed id >= the sought one
		for _, id := range all {
			c := v.store.IterateIds(tx, ast.BoolNodeTrue)
			c.Seek([]byte(id))
			want := ""
			for _, l := range v.listed {
				if l >= id {
					want = l
					break
				}
			}
			got := ""
			if c.IsValid() {
				got = string(c.Current())
			}
			if got != want {
				bad("seek:"+v.name, "%s.IterateIds().Seek(%q) is at %q, want %q (listed %q)", v.name, id, got, want, v.listed)
			}
		}
		if ids, cnt, err := v.store.QueryIds(tx, "limit 2"); err != nil {
			bad("query:"+v.name, "%s.QueryIds(limit 2) failed: %v", v.name, err)
		} else {
			want := v.listed
			if len(want) > 2 {
				want = want[:2]
			}
			if strings.Join(ids, ",") != strings.Join(want, ",") || int(cnt) != len(v.listed) {
				bad("query-limit:"+v.name, "%s.QueryIds(limit 2)=%q count %d, want %q count %d", v.name, ids, cnt, want, len(v.listed))
			}
		}
		if q, perr := ast.Parse(v.store, "limit 2"); perr == nil {
			ids, cnt, err := v.store.QueryIdsC(tx, q)
			want := v.listed
			if len(want) > 2 {
				want = want[:2]
			}
			if err != nil || strings.Join(ids, ",") != strings.Join(want, ",") || int(cnt) != len(v.listed) {
				bad("query-limit:"+v.name, "%s.QueryIdsC(limit 2)=%q count %d err=%v, want %q count %d", v.name, ids, cnt, err, want, len(v.listed))
			}
		}
		ids, cnt, err := v.store.QueryIds(tx, "")
		if err != nil {
			bad("query:"+v.name, "%s.QueryIds(\"\") failed: %v", v.name, err)
		} else if !sameSet(ids, v.listed) || int(cnt) != len(v.listed) {
			bad("query-empty:"+v.name, "%s.QueryIds(\"\")=%q count %d, want %q", v.name, ids, cnt, v.listed)
		}
		for _, n := range names {
			var want []string
			for _, id := range v.listed {
				if m.People[id].Name == n {
					want = append(want, id)
				}
			}
			ids, _, err := v.store.QueryIds(tx, fmt.Sprintf(`name = "%s"`, n))
			if err != nil {
				bad("query:"+v.name, "%s.QueryIds(name = %q) failed: %v", v.name, n, err)
			} else if !sameSet(ids, want) {
				bad("query-name:"+v.name, "%s.QueryIds(name = %q)=%q, want %q", v.name, n, ids, want)
			}
		}
		for _, tv := range []string{"tv", "tw"} {
			// a map symbol granted by the parent store: evaluated on the parent's data through every view
			var want []string
			for _, id := range v.listed {
				if s, ok := m.People[id].Tags["tka"].(string); ok && s == tv {
					want = append(want, id)
				}
			}
			ids, _, err := v.store.QueryIds(tx, fmt.Sprintf(`tags.tka = "%s"`, tv))
			if err != nil {
				bad("query:"+v.name, "%s.QueryIds(tags.tka = %q) failed: %v", v.name, tv, err)
			} else if !sameSet(ids, want) {
				bad("query-tags:"+v.name, "%s.QueryIds(tags.tka = %q)=%q, want %q", v.name, tv, ids, want)
			}
		}
		for _, r := range roles {
			var match []*MPerson
			for _, id := range v.listed {
				if containsStr(m.People[id].Roles, r) {
					match = append(match, m.People[id])
				}
			}
			sort.Slice(match, func(i, j int) bool {
				if match[i].Name != match[j].Name {
					return match[i].Name < match[j].Name
				}
				return match[i].Id < match[j].Id
			})
			var want []string
			for i, p := range match {
				if i >= 1 && i < 4 {
					want = append(want, p.Id)
				}
			}
			q := fmt.Sprintf(`anyOf(roles) = "%s" sort by name skip 1 limit 3`, r)
			ids, cnt, err := v.store.QueryIds(tx, q)
			if err != nil {
				bad("query:"+v.name, "%s.QueryIds(%s) failed: %v", v.name, q, err)
			} else if strings.Join(ids, ",") != strings.Join(want, ",") || int(cnt) != len(match) {
				bad("query-roles:"+v.name, "%s.QueryIds(%s)=%q count %d, want %q count %d", v.name, q, ids, cnt, want, len(match))
			}
		}
	}
	return out
}

func jsonUnmarshal(s string, v any) error { return json.Unmarshal([]byte(s), v) }
