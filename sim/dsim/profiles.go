package dsim

// Profile-specific setup, transaction modes and end-of-run checks.

func (r *Run) profileSetup() bool {
	switch r.plan.Profile {
	case "crud", "tx", "txenum", "integrity", "snap":
		return true
	case "conc":
		r.helperPrologue()
		return true
	}
	r.res.HarnessErr = "unknown profile " + r.plan.Profile
	return false
}

func (r *Run) execProfileTx(t *Task, idx int, tx *TxPlan) bool {
	switch tx.Mode {
	case "view":
		r.execViewTx(t, idx, tx)
	case "helper":
		r.execHelperTx(t, idx, tx)
	case "snapshot":
		r.execSnapshot(t, idx, tx)
	case "restore":
		r.execRestore(t, idx, tx)
	case "timeline":
		r.execTimeline(t, tx.Arg)
	case "idle":
		for i := 0; i < tx.N; i++ {
			t.Yield("idle", NeedNone)
		}
	default:
		return false
	}
	return true
}

func (r *Run) profileFinal() {
	switch r.plan.Profile {
	case "crud", "tx", "txenum":
		r.integritySoundness()
	case "integrity":
		r.integrityPhase()
	case "snap":
		r.snapFinal()
		if len(r.viols) == 0 {
			r.checkHistory()
		}
		if len(r.viols) == 0 {
			r.integritySoundness()
		}
	case "conc":
		r.helperEpilogue()
		if len(r.viols) > 0 {
			return
		}
		r.checkHistory()
		if len(r.viols) == 0 {
			r.integritySoundness()
		}
	}
}
