package dsim

// Profile-specific setup, transaction modes and end-of-run checks.

func (r *Run) profileSetup() bool {
	switch r.plan.Profile {
	case "crud", "tx", "txenum", "integrity":
		return true
	}
	r.res.HarnessErr = "unknown profile " + r.plan.Profile
	return false
}

func (r *Run) execProfileTx(t *Task, idx int, tx *TxPlan) bool {
	return false
}

func (r *Run) profileFinal() {
	switch r.plan.Profile {
	case "crud", "tx", "txenum":
		r.integritySoundness()
	case "integrity":
		r.integrityPhase()
	}
}
