package dsim

// Seeded cooperative scheduler running inside a testing/synctest bubble.
//
// Tasks are real goroutines. Exactly one is released at a time; which one is the only source of choice and comes
// from the run's PRNG (or from a recorded schedule on replay). synctest supplies the fake clock and quiescence
// detection (synctest.Wait); it does not choose who runs.
//
// No goroutine is ever allowed to block on a sync.Mutex/RWMutex for real (synctest would not regard it as durably
// blocked): the three locks that matter are mirrored by a lock model fed by the seam in the bbolt copy
// (writer lock) and the build-tag guarded hook points in boltz/db.go (reloadLock); a task is enabled only if its
// next acquisition would succeed immediately.

import (
	"bytes"
	"fmt"
	"hash/fnv"
	"math/rand/v2"
	"os"
	"runtime"
	"sort"
	"strconv"
	"strings"
	"sync"
	"sync/atomic"
	"testing/synctest"
	"time"

	"github.com/openziti/storage/boltz"
)

// bbolt's default MaxBatchDelay; the scheduler's clock step. Sleeping longer than the real value would only
// fire the same timer.
const batchDelay = 10 * time.Millisecond

type Need int

const (
	NeedNone       Need = iota
	NeedWriter          // would take reloadLock.RLock and then the bbolt writer lock
	NeedRLock           // would take reloadLock.RLock
	NeedNoReader        // reloadLock.Lock: needs readers == 0
	NeedNever           // parked until the run is unwound (used by the stall fault)
	NeedExclusive       // close / reopen of the database: no transaction of any kind open
	NeedBoltWriter      // only the bbolt writer lock (the caller already holds reloadLock.RLock): Batch solo re-run
)

const ClockChoice = "<clock>"

type abortSig struct{}

type parkEntry struct {
	name  string
	point string
	need  Need
	ch    chan struct{}
	gate  *windowGate // set by the scheduler before ch is closed when the entry is released as part of a race window
}

// windowGate lines the members of a race window up before their steps: goroutine wake-ups are tens of microseconds
// apart, many steps are shorter than that, and without the gate the "concurrent" steps mostly ran one after the other.
// The members spin on an atomic counter (a synchronisation BEFORE the steps: it orders nothing between the steps
// themselves, which is what the race detector has to see as unordered). Bounded, so that a member that never arrives
// (GOMAXPROCS=1, abort) cannot hold the others.
type windowGate struct {
	n       int32
	arrived atomic.Int32
}

func (g *windowGate) wait() {
	g.arrived.Add(1)
	for i := 0; i < 4000 && g.arrived.Load() < g.n; i++ {
		if i >= 2000 { // first a pure spin (the tightest line-up), then give way in case the others need this thread
			runtime.Gosched()
		}
	}
}

type Sched struct {
	mu     sync.Mutex
	parked map[string]*parkEntry
	goids  map[int64]string // goroutine id -> task name (root tasks only)
	depth  map[int64]int    // goroutine id -> reloadLock read-lock depth
	atomic map[int64]int    // goroutine id -> inside a harness-internal call that must stay one step
	live   int              // harness goroutines that have not returned yet (tasks + async closures)

	rng    *rand.Rand
	replay []string // recorded schedule (task names); deterministic fallback when exhausted or not enabled
	pos    int
	Trace  []string

	Steps     int
	MaxSteps  int
	abort     bool
	abortFlag atomic.Bool
	Outcome   string // "", "deadlock: ...", "budget"

	// lock model
	mainPath     string
	mainDb       *boltz.DbImpl
	writerHeld   bool
	readers      int
	lockPending  int // callers inside reloadLock.Lock() that do not hold it yet (several restores may queue up)
	lockHeld     bool
	batchWaiters int // tasks blocked inside db.Batch whose body has not started
	blockedNeed  map[string]Need

	seq uint64 // global event sequence number

	ilHash uint64 // running hash of (task, point) sequence
	multi  bool   // at least two different root tasks interleaved
	lastT  string

	// callbacks into the run
	onQuiescent    func()                   // scheduler goroutine, everything parked
	onRw           func(ev string)          // main db writer lock notifications: acquired | committed | released
	onRestore      func(point, task string) // reload.lock.after / reload.unlock.after on the main db
	onSeam         func(site string, key []byte) error
	Windows        bool // conc profile: sometimes release a set of tasks at once, for one step each (race windows)
	YieldAtRUnlock bool // snap profile: reload.runlock.after is a scheduling point
	WindowsOpened  int
	ClockSleeps    int
	NestedRLockP   int // probe: RLock requested while a restore was pending or held
	RestoreWaited  int // probe: restore had to wait for open transactions
	harnessErr     string
}

func NewSched(seed uint64, replay []string, maxSteps int) *Sched {
	return &Sched{
		parked:   map[string]*parkEntry{},
		goids:    map[int64]string{},
		depth:    map[int64]int{},
		atomic:   map[int64]int{},
		rng:      rand.New(rand.NewPCG(seed, seed^0x9e3779b97f4a7c15)),
		replay:   replay,
		MaxSteps: maxSteps,
		ilHash:   1469598103934665603,
	}
}

func goid() int64 {
	var buf [64]byte
	n := runtime.Stack(buf[:], false)
	// "goroutine 123 ["
	f := bytes.Fields(buf[:n])
	if len(f) < 2 {
		return -1
	}
	id, _ := strconv.ParseInt(string(f[1]), 10, 64)
	return id
}

func (s *Sched) NextSeq() uint64 {
	s.mu.Lock()
	defer s.mu.Unlock()
	s.seq++
	return s.seq
}

func (s *Sched) HarnessError(msg string) {
	s.mu.Lock()
	if s.harnessErr == "" {
		s.harnessErr = msg
	}
	s.mu.Unlock()
}

// Spawn starts a root task. Its first action is to park.
func (s *Sched) Spawn(name string, fn func(t *Task)) {
	s.mu.Lock()
	s.live++
	s.mu.Unlock()
	t := &Task{Name: name, s: s}
	go func() {
		defer s.exit()
		defer func() {
			if p := recover(); p != nil {
				if _, ok := p.(abortSig); ok {
					return
				}
				s.HarnessError(fmt.Sprintf("task %s panicked: %v\n%s", name, p, stack()))
				s.Abort("harness-error")
			}
		}()
		s.mu.Lock()
		s.goids[goid()] = name
		s.mu.Unlock()
		t.Yield("start", NeedNone)
		fn(t)
	}()
}

func stack() string {
	buf := make([]byte, 8192)
	n := runtime.Stack(buf, false)
	return string(buf[:n])
}

func (s *Sched) exit() {
	s.mu.Lock()
	s.live--
	s.mu.Unlock()
}

// AsyncEnter / AsyncDone bracket closures the library runs on goroutines of its own (commit actions, restore
// listeners, *Async entity listeners):   defer s.AsyncDone(); s.AsyncEnter("async:...")
// AsyncEnter gives the goroutine a deterministic identity and parks it as an ordinary schedulable task.
func (s *Sched) AsyncEnter(base string) {
	s.mu.Lock()
	s.live++
	s.mu.Unlock()
	s.parkAs(base, "async", NeedNone, true)
}

func (s *Sched) AsyncDone() {
	p := recover()
	s.exit()
	if p != nil {
		if _, ok := p.(abortSig); ok {
			return
		}
		s.HarnessError(fmt.Sprintf("async closure panicked: %v\n%s", p, stack()))
		s.Abort("harness-error")
	}
}

type Task struct {
	Name string
	s    *Sched
}

func (t *Task) Yield(point string, need Need) { t.s.park(t.Name, point, need) }

func (s *Sched) park(name, point string, need Need) { s.parkAs(name, point, need, false) }

func (s *Sched) parkAs(name, point string, need Need, rename bool) {
	ch := make(chan struct{})
	s.mu.Lock()
	if s.abort {
		s.mu.Unlock()
		panic(abortSig{})
	}
	if _, dup := s.parked[name]; dup {
		if !rename {
			s.mu.Unlock()
			s.HarnessError("task parked twice: " + name + " at " + point)
			panic(abortSig{})
		}
		// symmetric goroutines (same closure, same arguments): any assignment of the suffixes is equivalent
		base := name
		for i := 2; ; i++ {
			name = fmt.Sprintf("%s#%d", base, i)
			if _, dup := s.parked[name]; !dup {
				break
			}
		}
	}
	e := &parkEntry{name: name, point: point, need: need, ch: ch}
	s.parked[name] = e
	s.mu.Unlock()
	<-ch
	if g := e.gate; g != nil { // written before close(ch)
		g.wait()
	}
	// lock-free: window members must not synchronise with each other before their step (the race detector would
	// see a happens-before edge and miss races between them)
	if s.abortFlag.Load() {
		panic(abortSig{})
	}
}

// Abort unwinds the run: every parked goroutine is woken into a sentinel panic (deferred unlocks / rollbacks run).
func (s *Sched) Abort(why string) {
	s.mu.Lock()
	s.abortFlag.Store(true)
	if !s.abort {
		s.abort = true
		if s.Outcome == "" {
			s.Outcome = why
		}
	}
	entries := s.parked
	s.parked = map[string]*parkEntry{}
	s.mu.Unlock()
	for _, e := range entries {
		close(e.ch)
	}
}

func (s *Sched) Aborted() bool {
	s.mu.Lock()
	defer s.mu.Unlock()
	return s.abort
}

func (s *Sched) enabledLocked(n Need) bool {
	switch n {
	case NeedNone:
		return true
	case NeedWriter:
		return !s.writerHeld && s.lockPending == 0 && !s.lockHeld
	case NeedRLock:
		return s.lockPending == 0 && !s.lockHeld
	case NeedNoReader:
		return s.readers == 0 && !s.lockHeld // (another restore may hold the lock)
	case NeedBoltWriter:
		return !s.writerHeld
	case NeedNever:
		return false
	case NeedExclusive:
		return !s.writerHeld && s.readers == 0 && s.lockPending == 0 && !s.lockHeld && s.batchWaiters == 0
	}
	return false
}

func (s *Sched) mix(task, point string) {
	h := fnv.New64a()
	h.Write([]byte(task))
	h.Write([]byte{0})
	h.Write([]byte(point))
	s.ilHash = (s.ilHash ^ h.Sum64()) * 1099511628211
	if !strings.HasPrefix(task, "async:") && task != ClockChoice {
		if s.lastT != "" && s.lastT != task {
			s.multi = true
		}
		s.lastT = task
	}
}

// Loop runs the schedule to completion. Must be called from the bubble's root goroutine.
func (s *Sched) Loop() {
	for {
		synctest.Wait()
		if s.onQuiescent != nil && !s.Aborted() {
			s.onQuiescent()
		}
		s.mu.Lock()
		if s.abort {
			s.mu.Unlock()
			s.drain()
			return
		}
		var enabled []string
		for name, e := range s.parked {
			if s.enabledLocked(e.need) {
				enabled = append(enabled, name)
			}
		}
		sort.Strings(enabled)
		if s.batchWaiters > 0 && !s.writerHeld && !s.lockHeld {
			enabled = append(enabled, ClockChoice)
		}
		if len(enabled) == 0 {
			if len(s.parked) == 0 && s.live == 0 {
				s.mu.Unlock()
				return
			}
			var desc []string
			for name, e := range s.parked {
				desc = append(desc, name+"@"+e.point)
			}
			sort.Strings(desc)
			why := fmt.Sprintf("deadlock: %s live=%d batchWaiters=%d writerHeld=%v readers=%d lockPending=%v", strings.Join(desc, ", "), s.live, s.batchWaiters, s.writerHeld, s.readers, s.lockPending)
			s.mu.Unlock()
			s.Abort(why)
			s.drain()
			return
		}
		if s.Steps >= s.MaxSteps {
			s.mu.Unlock()
			s.Abort("budget")
			s.drain()
			return
		}
		s.Steps++
		if traceHooks {
			var desc []string
			for name, e := range s.parked {
				desc = append(desc, fmt.Sprintf("%s@%s/%d", name, e.point, e.need))
			}
			sort.Strings(desc)
			tracef("TRACE step %d parked=%v enabled=%v live=%d readers=%d writer=%v lock=%v pending=%v\n", s.Steps, desc, enabled, s.live, s.readers, s.writerHeld, s.lockHeld, s.lockPending)
		}
		pick := ""
		var window []string
		if s.pos < len(s.replay) {
			// recorded schedule: honoured entry by entry while it applies
			want := s.replay[s.pos]
			s.pos++
			if strings.HasPrefix(want, "win:") {
				ok := true
				names := strings.Split(strings.TrimPrefix(want, "win:"), "+")
				for _, n := range names {
					e := s.parked[n]
					if e == nil || !windowEligible(e.point) || !s.enabledLocked(e.need) {
						ok = false
					}
				}
				if ok && len(names) >= 2 {
					window, pick = names, want
				}
			}
			for _, e := range enabled {
				if e == want {
					pick = e
				}
			}
		}
		if pick == "" {
			// free choice from the run's PRNG (also the deterministic fallback where a recorded schedule no longer
			// applies, e.g. while a plan is being minimised)
			if s.Windows && s.rng.IntN(2) == 0 {
				var elig []string
				for _, n := range enabled {
					if n != ClockChoice && windowEligible(s.parked[n].point) {
						elig = append(elig, n)
					}
				}
				if len(elig) >= 2 {
					k := 2 + s.rng.IntN(min(3, len(elig)-1))
					s.rng.Shuffle(len(elig), func(i, j int) { elig[i], elig[j] = elig[j], elig[i] })
					window = append([]string(nil), elig[:k]...)
					sort.Strings(window)
					pick = "win:" + strings.Join(window, "+")
				}
			}
			if pick == "" {
				pick = enabled[s.rng.IntN(len(enabled))]
			}
		}
		if window != nil {
			s.Trace = append(s.Trace, pick)
			s.WindowsOpened++
			var chans []chan struct{}
			gate := &windowGate{n: int32(len(window))}
			for _, n := range window {
				e := s.parked[n]
				delete(s.parked, n)
				s.mix(n, e.point)
				e.gate = gate
				chans = append(chans, e.ch)
			}
			s.seq++
			s.mu.Unlock()
			// released together, no ordering between them: the race detector sees their steps as concurrent
			for _, ch := range chans {
				close(ch)
			}
			continue
		}
		s.Trace = append(s.Trace, pick)
		if pick == ClockChoice {
			s.mix(pick, "")
			s.ClockSleeps++
			s.mu.Unlock()
			time.Sleep(batchDelay)
			continue
		}
		e := s.parked[pick]
		delete(s.parked, pick)
		s.mix(pick, e.point)
		s.seq++
		s.mu.Unlock()
		close(e.ch)
	}
}

// drain lets every goroutine of an aborted run unwind before the bubble ends.
func (s *Sched) drain() {
	for i := 0; i < 50; i++ {
		synctest.Wait()
		s.mu.Lock()
		live := s.live
		entries := s.parked
		s.parked = map[string]*parkEntry{}
		s.mu.Unlock()
		for _, e := range entries {
			close(e.ch)
		}
		if live == 0 && len(entries) == 0 {
			return
		}
		// fire pending batch timers so that callers blocked inside bbolt's Batch get an answer
		time.Sleep(2 * batchDelay)
	}
	s.HarnessError("drain: goroutines did not unwind")
}

// ---------- hooks ----------

// SimHook is installed as boltz.SimHook.
var traceHooks = os.Getenv("DSIM_TRACE") != ""

// DSIM_TRACE=buf keeps the trace in memory (no I/O at the hook points) and dumps it after DSIM_TRACE_AFTER seconds:
// for runs that block for real, where printing would disturb what is being looked at.
var (
	traceBufMu sync.Mutex
	traceBuf   []string
)

func tracef(format string, args ...any) {
	if os.Getenv("DSIM_TRACE") != "buf" {
		fmt.Printf(format, args...)
		return
	}
	traceBufMu.Lock()
	traceBuf = append(traceBuf, fmt.Sprintf(format, args...))
	if len(traceBuf) > 4000 {
		traceBuf = traceBuf[2000:]
	}
	traceBufMu.Unlock()
}

func init() {
	if os.Getenv("DSIM_TRACE") == "buf" {
		secs, _ := strconv.Atoi(os.Getenv("DSIM_TRACE_AFTER"))
		go func() {
			time.Sleep(time.Duration(secs) * time.Second)
			traceBufMu.Lock()
			for _, l := range traceBuf {
				fmt.Print(l)
			}
			os.Exit(3)
		}()
	}
}

func (s *Sched) SimHook(point string, db *boltz.DbImpl) {
	if traceHooks {
		tracef("TRACE hook %s main=%v goid=%d\n", point, db == s.mainDb, goid())
	}
	s.mu.Lock()
	if db != s.mainDb {
		s.mu.Unlock()
		return
	}
	switch point {
	case "reload.rlock.before":
		if s.lockPending > 0 || s.lockHeld {
			held := s.lockHeld
			s.NestedRLockP++
			name, ok := s.goids[goid()]
			s.mu.Unlock()
			if !ok {
				s.HarnessError("RLock would block on a goroutine that is not a task")
				panic(abortSig{})
			}
			if held && s.onRestore != nil {
				// the caller waits for the lock a restore holds: it must not be inside a transaction of its own
				s.onRestore("reload.rlock.blocked", name)
			}
			need := NeedRLock
			s.mu.Lock()
			if h, ok := s.blockedNeed[name]; ok {
				need = h
			}
			s.mu.Unlock()
			s.park(name, "blocked.rlock", need)
			return
		}
	case "reload.rlock.after":
		s.readers++
		g := goid()
		s.depth[g]++
		if name, isTask := s.goids[g]; isTask && s.depth[g] >= 2 {
			// a nested acquisition (Snapshot -> View -> SnapshotInTx): a scheduling point inside the already open
			// read transaction, before the copy is taken
			s.mu.Unlock()
			s.park(name, "rlock.nested", NeedNone)
			return
		}
	case "reload.runlock.after":
		s.readers--
		g := goid()
		if s.depth[g] > 0 {
			s.depth[g]--
		}
		if name, isTask := s.goids[g]; isTask && s.YieldAtRUnlock && s.depth[g] == 0 && !s.abort && s.atomic[g] == 0 {
			// a scheduling point right after the read lock is released (snap profile): whatever the caller still does
			// with the database afterwards is no longer protected from a restore
			s.mu.Unlock()
			s.park(name, "rlock.released", NeedNone)
			return
		}
	case "reload.lock.before":
		s.lockPending++
		if s.readers > 0 || s.lockHeld {
			s.RestoreWaited++
			name, ok := s.goids[goid()]
			s.mu.Unlock()
			if !ok {
				s.HarnessError("Lock would block on a goroutine that is not a task")
				panic(abortSig{})
			}
			s.park(name, "restore.lock", NeedNoReader)
			return
		}
	case "reload.lock.after":
		s.lockPending--
		s.lockHeld = true
		cb := s.onRestore
		name, isTask := s.goids[goid()]
		s.mu.Unlock()
		if cb != nil {
			cb(point, name)
		}
		if isTask {
			// a scheduling point while the write lock is held: tasks that need no lock may run
			s.park(name, "restore.locked", NeedNone)
		}
		return
	case "reload.unlock.after":
		s.lockHeld = false
		cb := s.onRestore
		name, isTask := s.goids[goid()]
		s.mu.Unlock()
		if cb != nil {
			cb(point, name)
		}
		if isTask {
			// a scheduling point right after the unlock: whatever the restore still does afterwards runs
			// concurrently with transactions that were waiting for the lock
			s.park(name, "restore.unlocked", NeedNone)
		}
		return
	}
	s.mu.Unlock()
}

// SeamHook is installed as simseam.Hook in the bbolt copy.
func (s *Sched) SeamHook(site string, key []byte) error {
	if traceHooks && (strings.HasPrefix(site, "rw.") || strings.HasPrefix(site, "tx.") || site == "batch.solo") {
		tracef("TRACE seam %s main=%v goid=%d\n", site, string(key) == s.mainPath, goid())
	}
	switch site {
	case "rw.acquired", "rw.released", "tx.committed", "tx.commit.begin":
		s.mu.Lock()
		if string(key) != s.mainPath {
			s.mu.Unlock()
			return nil
		}
		if site == "rw.acquired" || site == "rw.released" {
			s.writerHeld = site == "rw.acquired"
		}
		s.seq++
		cb := s.onRw
		s.mu.Unlock()
		if cb != nil {
			cb(site[3:])
		}
		return nil
	case "batch.solo":
		s.mu.Lock()
		if string(key) != s.mainPath {
			s.mu.Unlock()
			return nil
		}
		name, ok := s.goids[goid()]
		s.mu.Unlock()
		if !ok {
			s.HarnessError("batch.solo on a goroutine that is not a task")
			panic(abortSig{})
		}
		s.park(name, "batch.solo", NeedBoltWriter)
		return nil
	}
	if s.onSeam != nil {
		return s.onSeam(site, key)
	}
	return nil
}

// HintBlockedNeed: what task `name` needs in order to go on if its next reload-lock acquisition has to wait.
func (s *Sched) HintBlockedNeed(name string, n Need) {
	s.mu.Lock()
	if s.blockedNeed == nil {
		s.blockedNeed = map[string]Need{}
	}
	s.blockedNeed[name] = n
	s.mu.Unlock()
}

func (s *Sched) BatchWait(delta int) {
	s.mu.Lock()
	s.batchWaiters += delta
	s.mu.Unlock()
}

func (s *Sched) WriterHeld() bool {
	s.mu.Lock()
	defer s.mu.Unlock()
	return s.writerHeld
}

// Atomic runs a harness-internal database call (a dump, a marker read, a timeline request whose expectation is read
// right after it) without the optional scheduling point after the read lock is released.
func (s *Sched) Atomic(fn func()) {
	g := goid()
	s.mu.Lock()
	s.atomic[g]++
	s.mu.Unlock()
	defer func() {
		s.mu.Lock()
		s.atomic[g]--
		s.mu.Unlock()
	}()
	fn()
}

// ReloadHeld: the restore holds reloadLock.Lock right now.
func (s *Sched) ReloadHeld() bool {
	s.mu.Lock()
	defer s.mu.Unlock()
	return s.lockHeld
}

func (s *Sched) ReloadBusy() bool {
	s.mu.Lock()
	defer s.mu.Unlock()
	return s.lockPending > 0 || s.lockHeld
}

func (s *Sched) Interleaving() (uint64, bool) {
	s.mu.Lock()
	defer s.mu.Unlock()
	return s.ilHash, s.multi
}

// windowEligible: steps whose result is schedule-independent by the property itself (inside an already open read
// or write transaction, or pure helper calls). Begin and commit steps are never released together.
func windowEligible(point string) bool {
	switch point {
	case "view.step", "helper.step", "op":
		return true
	}
	return false
}
