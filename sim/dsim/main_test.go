package dsim

import (
	"encoding/json"
	"flag"
	"fmt"
	"os"
	"strconv"
	"testing"
)

// The binary built with `go test -c` is the whole tool: `dsim <command> ...`. Commands that execute plans need a
// *testing.T (testing/synctest), so they run inside TestEntry via m.Run().

var entry func(t *testing.T)

func TestMain(m *testing.M) {
	args := os.Args[1:]
	if len(args) == 0 || args[0] == "" || args[0][0] == '-' {
		// plain `go test` invocation: nothing to do here
		flag.Parse()
		os.Exit(0)
	}
	os.Args = []string{os.Args[0], "-test.run=^TestEntry$", "-test.timeout=0"}
	if cp := os.Getenv("DSIM_COVERPROFILE"); cp != "" {
		// reach measurement (tools/reach.sh): binary built with -cover -coverpkg=<library packages>
		os.Args = append(os.Args, "-test.coverprofile="+cp)
	}
	flag.Parse()
	code := 0
	switch args[0] {
	case "debug":
		entry = func(t *testing.T) { code = cmdDebug(t, args[1:]) }
	case "worker":
		entry = func(t *testing.T) { code = cmdWorker(t, args[1:]) }
	case "replay":
		entry = func(t *testing.T) { code = cmdReplay(t, args[1:]) }
	case "try":
		entry = func(t *testing.T) { code = cmdTry(t, args[1:]) }
	case "digest":
		entry = func(t *testing.T) { code = cmdDigest(t, args[1:]) }
	case "minimize":
		entry = func(t *testing.T) { code = cmdMinimize(t, args[1:]) }
	case "check":
		code = cmdCheck(args[1:])
		os.Exit(code)
	case "selftest":
		code = cmdSelftest(args[1:])
		os.Exit(code)
	default:
		fmt.Fprintf(os.Stderr, "dsim: unknown command %q\n", args[0])
		os.Exit(2)
	}
	// the ANTLR lexer's console listener prints "token recognition error" lines: not ours to judge, keep the logs clean
	if devnull, err := os.OpenFile(os.DevNull, os.O_WRONLY, 0); err == nil {
		os.Stderr = devnull
	}
	entered = false
	rc := m.Run()
	if !entered || (rc != 0 && !finished) {
		// the entry function did not run to completion: harness trouble, never a verdict
		code = 2
	}
	os.Exit(code)
}

var entered, finished bool

func TestEntry(t *testing.T) {
	if entry != nil {
		entered = true
		entry(t)
		finished = true // (a -race binary also fails the test when a race was reported; the reports are read from the race log)
	}
}

// debug <profile> <prop> <seed0> <n> [log]
func cmdDebug(t *testing.T, args []string) int {
	profile, prop := args[0], args[1]
	seed0, _ := strconv.ParseUint(args[2], 10, 64)
	n, _ := strconv.Atoi(args[3])
	log := len(args) > 4
	bad := 0
	maxBad := 5
	if v := os.Getenv("DSIM_MAXBAD"); v != "" {
		maxBad, _ = strconv.Atoi(v)
	}
	agg := map[string]int{}
	for i := 0; i < n; i++ {
		plan := GenPlan(profile, prop, seed0+uint64(i))
		res := Execute(t, plan, ExecOpt{Log: log})
		for k, v := range res.Trans {
			agg[k] += v
		}
		if res.HarnessErr != "" || len(res.Violations) > 0 {
			bad++
			if os.Getenv("DSIM_SHOWPLAN") != "" {
				pb, _ := json.Marshal(plan)
				fmt.Println("PLAN", string(pb))
			}
			fmt.Printf("seed %d: harnessErr=%q outcome=%q steps=%d\n", plan.Seed, res.HarnessErr, res.Outcome, res.Steps)
			for _, v := range res.Violations {
				fmt.Printf("  VIOL props=%v oracle=%s sig=%s\n    %s\n", v.Props, v.Oracle, v.Sig, v.Detail)
			}
			if log {
				for _, l := range res.Log {
					fmt.Println("   ", l)
				}
			}
			if bad >= maxBad {
				break
			}
		}
	}
	b, _ := json.MarshalIndent(agg, "", " ")
	if log {
		fmt.Println(string(b))
	}
	fmt.Printf("runs=%d bad=%d\n", n, bad)
	return 0
}
