package dsim

// Driver: fans seeded runs out over worker processes, merges their statistics into the evidence file, minimises
// and writes replay files for violations, honours the known-findings file, and decides the exit code.
//   exit 0  property held on everything explored (known findings are printed as KNOWN-FINDING lines)
//   exit 1  VIOLATION property=<id> replay=<path>
//   exit 2  build / harness / watchdog trouble - never a VIOLATION

import (
	"encoding/json"
	"fmt"
	"hash/fnv"
	"os"
	"os/exec"
	"path/filepath"
	"regexp"
	"runtime"
	"sort"
	"strconv"
	"strings"
	"testing"
	"time"
)

func verifRoot() string {
	if v := os.Getenv("VERIF_ROOT"); v != "" {
		return v
	}
	return "/verif"
}

// outRoot: where evidence/ and replays/ are written (scratch directory for runs against mutated copies).
func outRoot() string {
	if v := os.Getenv("VERIF_OUT"); v != "" {
		return v
	}
	return verifRoot()
}

func splitmix(x uint64) uint64 {
	x += 0x9e3779b97f4a7c15
	z := x
	z = (z ^ (z >> 30)) * 0xbf58476d1ce4e5b9
	z = (z ^ (z >> 27)) * 0x94d049bb133111eb
	return z ^ (z >> 31)
}

func runSeed(base uint64, i int) uint64 { return splitmix(base*0x9e3779b97f4a7c15 + uint64(i)) }

// ---------- per-property configuration ----------

type propCfg struct {
	Profile  string
	Level    string
	Quick    int
	Thorough int
	Race     bool
}

var propCfgs = map[string]propCfg{
	"C03": {Profile: "crud", Level: "exploration", Quick: 6000, Thorough: 400000},
	"C04": {Profile: "crud", Level: "exploration", Quick: 6000, Thorough: 400000},
	"C05": {Profile: "crud", Level: "exploration", Quick: 6000, Thorough: 400000},
	"C06": {Profile: "crud", Level: "exploration", Quick: 6000, Thorough: 400000},
	"C15": {Profile: "crud", Level: "exploration", Quick: 5000, Thorough: 300000},
	"C16": {Profile: "crud", Level: "exploration", Quick: 6000, Thorough: 400000},
	"C07": {Profile: "tx", Level: "fault_enumeration", Quick: 3000, Thorough: 100000},
	"C08": {Profile: "tx", Level: "exploration", Quick: 4000, Thorough: 300000},
	"C09": {Profile: "integrity", Level: "exploration", Quick: 5000, Thorough: 300000},
	"C17": {Profile: "snap", Level: "exploration", Quick: 3000, Thorough: 150000},
	"C18": {Profile: "conc", Level: "exploration", Quick: 10000, Thorough: 60000, Race: true},
}

// ---------- worker ----------

type Job struct {
	Prop    string `json:"prop"`
	Profile string `json:"profile"`
	Base    uint64 `json:"base"`
	From    int    `json:"from"`
	To      int    `json:"to"`
	Out     string `json:"out"`
	KeepMax int    `json:"keepMax"`
}

type FoundViolation struct {
	Index     int         `json:"index"`
	Plan      *Plan       `json:"plan"`
	Violation Violation   `json:"violation"`
	All       []Violation `json:"all"`
}

type WorkerOut struct {
	Runs        int               `json:"runs"`
	Steps       int               `json:"steps"`
	Ops         int               `json:"ops"`
	Commits     int               `json:"commits"`
	Aborts      int               `json:"aborts"`
	SimTimeNs   int64             `json:"simTimeNs"`
	Interleave  []uint64          `json:"interleave"`
	Nontrivial  []uint64          `json:"nontrivial"`
	States      []uint64          `json:"states"`
	Trans       map[string]int    `json:"trans"`
	FaultsConf  map[string]int    `json:"faultsConf"`
	FaultsHit   map[string]int    `json:"faultsHit"`
	Probes      map[string]int    `json:"probes"`
	Own         []FoundViolation  `json:"own"`
	OwnCount    int               `json:"ownCount"`
	OwnSigs     map[string]int    `json:"ownSigs"`
	Foreign     map[string]int    `json:"foreign"`
	HarnessErrs []string          `json:"harnessErrs"`
	Samples     []json.RawMessage `json:"samples"`
	MultiRuns   int               `json:"multiRuns"`
	Kinds       map[string]int    `json:"kinds"`
}

func hashBytes(b []byte) uint64 {
	h := fnv.New64a()
	h.Write(b)
	return h.Sum64()
}

func planHash(p *Plan) uint64 {
	c := *p
	c.Sched = nil
	c.Seed = 0
	b, _ := json.Marshal(c)
	return hashBytes(b)
}

func execOptFor(prop string) ExecOpt {
	return ExecOpt{}
}

func genFor(profile, prop string, seed uint64) *Plan { return GenPlan(profile, prop, seed) }

func cmdWorker(t *testing.T, args []string) int {
	b, err := os.ReadFile(args[0])
	if err != nil {
		fmt.Println("worker:", err)
		return 2
	}
	var job Job
	if err := json.Unmarshal(b, &job); err != nil {
		fmt.Println("worker:", err)
		return 2
	}
	curPlanFile = job.Out + ".cur" // (every profile: a crash of the process is attributed to the plan that was running)
	out := &WorkerOut{Kinds: map[string]int{}, Trans: map[string]int{}, FaultsConf: map[string]int{}, FaultsHit: map[string]int{}, Probes: map[string]int{}, Foreign: map[string]int{}, OwnSigs: map[string]int{}}
	il := map[uint64]bool{}
	nt := map[uint64]bool{}
	states := map[uint64]bool{}
	cur := 0
	emit := func(plan *Plan, res *RunResult, kind string) {
		i := cur
		out.Kinds[kind]++
		out.Runs++
		out.Steps += res.Steps
		out.Ops += res.Ops
		out.Commits += res.Commits
		out.Aborts += res.Aborts
		out.SimTimeNs += res.SimTimeNs
		il[res.Interleave] = true
		for _, s := range res.States {
			states[s] = true
		}
		for k, v := range res.Trans {
			out.Trans[k] += v
		}
		for k, v := range res.FaultsConf {
			out.FaultsConf[k] += v
		}
		nfired := 0
		for k, v := range res.FaultsHit {
			out.FaultsHit[k] += v
			nfired += v
		}
		for k, v := range res.Probes {
			out.Probes[k] += v
		}
		if res.Multi {
			out.MultiRuns++
		}
		if res.Commits >= 2 && (nfired > 0 || res.Multi) {
			nt[res.Interleave^planHash(plan)] = true
		}
		if res.HarnessErr != "" {
			if len(out.HarnessErrs) < 5 {
				out.HarnessErrs = append(out.HarnessErrs, fmt.Sprintf("run %d seed %d: %s", i, plan.Seed, res.HarnessErr))
			}
			return
		}
		if len(out.Samples) < 2 && i%97 == job.From%97 {
			s := map[string]any{"run": i, "seed": plan.Seed, "tasks": plan.Tasks, "schedule": res.Trace, "commits": res.Commits, "aborts": res.Aborts, "faults_fired": res.FaultsHit}
			sb, _ := json.Marshal(s)
			if len(sb) < 6000 {
				out.Samples = append(out.Samples, sb)
			}
		}
		var own *Violation
		for vi := range res.Violations {
			v := res.Violations[vi]
			if v.Has(job.Prop) {
				if own == nil {
					own = &res.Violations[vi]
				}
			}
		}
		if own != nil {
			out.OwnCount++
			out.OwnSigs[own.Sig]++
			// keep the first violation of each signature (bounded)
			if out.OwnSigs[own.Sig] == 1 && len(out.Own) < job.KeepMax {
				plan.Sched = res.Trace
				out.Own = append(out.Own, FoundViolation{Index: i, Plan: plan, Violation: *own, All: res.Violations})
			}
		} else if len(res.Violations) > 0 {
			out.Foreign[strings.Join(res.Violations[0].Props, ",")+":"+res.Violations[0].Sig]++
		}
	}
	for i := job.From; i < job.To; i++ {
		cur = i
		runUnit(t, job, i, emit)
	}
	for k := range il {
		out.Interleave = append(out.Interleave, k)
	}
	for k := range nt {
		out.Nontrivial = append(out.Nontrivial, k)
	}
	for k := range states {
		out.States = append(out.States, k)
	}
	ob, _ := json.Marshal(out)
	if err := os.WriteFile(job.Out, ob, 0644); err != nil {
		fmt.Println("worker:", err)
		return 2
	}
	return 0
}

// ---------- known findings ----------

type KnownFinding struct {
	Property string `json:"property"`
	Sig      string `json:"sig"`              // exact signature, or prefix if it ends with '*'
	Detail   string `json:"detail,omitempty"` // substring that must occur in the violation detail
	What     string `json:"what"`
}

type KnownFile struct {
	Known []KnownFinding `json:"known"`
	Fixed []string       `json:"fixed"`
}

func loadKnown() KnownFile {
	var k KnownFile
	b, err := os.ReadFile(filepath.Join(verifRoot(), "known_findings.json"))
	if err != nil {
		return k
	}
	_ = json.Unmarshal(b, &k)
	return k
}

func (k KnownFile) match(prop string, v Violation) *KnownFinding {
	for i := range k.Known {
		f := &k.Known[i]
		if f.Property != prop {
			continue
		}
		ok := f.Sig == v.Sig || (strings.HasSuffix(f.Sig, "*") && strings.HasPrefix(v.Sig, strings.TrimSuffix(f.Sig, "*")))
		if ok && (f.Detail == "" || strings.Contains(v.Detail, f.Detail)) {
			return f
		}
	}
	return nil
}

// ---------- replay ----------

func sigOf(res *RunResult, prop string) (Violation, bool) {
	for _, v := range res.Violations {
		if v.Has(prop) {
			return v, true
		}
	}
	return Violation{}, false
}

// replay <file> [log]: executes the plan with its recorded schedule; prints the violation it reproduces.
func cmdReplay(t *testing.T, args []string) int {
	plan, err := LoadPlan(args[0])
	if err != nil {
		fmt.Fprintln(os.Stderr, "replay:", err)
		return 2
	}
	if plan.Violation != nil && strings.HasPrefix(plan.Violation.Sig, "fatal:") && os.Getenv("DSIM_IN_CHILD") == "" {
		// the violation kills the process: execute in children (the crash needs the two accesses to really overlap)
		os.Setenv("DSIM_IN_CHILD", "1")
		for attempt := 0; attempt < 10; attempt++ {
			if r := tryInFreshProcess(plan); r.Sig == plan.Violation.Sig {
				fmt.Printf("VIOLATION property=%s replay=%s\n  oracle=crash sig=%s (attempt %d)\n  %s\n", plan.Prop, args[0], r.Sig, attempt+1, indent(plan.Violation.Detail))
				return 1
			}
		}
		fmt.Printf("NO-VIOLATION property=%s replay=%s (10 attempts)\n", plan.Prop, args[0])
		return 0
	}
	opt := execOptFor(plan.Prop)
	opt.Log = len(args) > 1
	res := ExecuteChecked(t, plan, opt)
	if res.HarnessErr != "" {
		fmt.Println("HARNESS-ERROR", res.HarnessErr)
		return 2
	}
	for _, l := range res.Log {
		fmt.Println("  ", l)
	}
	v, ok := sigOf(res, plan.Prop)
	if !ok {
		fmt.Printf("NO-VIOLATION property=%s replay=%s\n", plan.Prop, args[0])
		return 0
	}
	fmt.Printf("VIOLATION property=%s replay=%s\n", plan.Prop, args[0])
	fmt.Printf("  oracle=%s sig=%s\n  %s\n", v.Oracle, v.Sig, indent(v.Detail))
	if plan.Violation != nil && plan.Violation.Sig != v.Sig {
		fmt.Printf("  (recorded signature was %s)\n", plan.Violation.Sig)
	}
	return 1
}

// ---------- minimisation (runs inside a worker-type process: needs *testing.T) ----------

// tryResult is what one execution of a candidate plan yields.
type tryResult struct {
	Sig   string   `json:"sig"`
	Trace []string `json:"trace"`
	Err   string   `json:"err,omitempty"`
}

func tryInProcess(t *testing.T, c *Plan) tryResult {
	res := ExecuteChecked(t, c, execOptFor(c.Prop))
	if res.HarnessErr != "" {
		return tryResult{Err: res.HarnessErr}
	}
	v, _ := sigOf(res, c.Prop)
	return tryResult{Sig: v.Sig, Trace: res.Trace}
}

// tryInFreshProcess: the race detector reports each pair of stacks once per process, so candidates of a data-race
// violation are each executed in a process of their own.
func tryInFreshProcess(c *Plan) tryResult {
	f, err := os.CreateTemp("/dev/shm", "dsim-try-*.json")
	if err != nil {
		return tryResult{Err: err.Error()}
	}
	f.Close()
	defer os.Remove(f.Name())
	if err := SavePlan(f.Name(), c); err != nil {
		return tryResult{Err: err.Error()}
	}
	out, _ := runChild(2*time.Minute, "try", f.Name())
	if cv := crashViolation(out); cv != nil {
		return tryResult{Sig: cv.Sig}
	}
	for _, l := range strings.Split(out, "\n") {
		if strings.HasPrefix(l, "TRY ") {
			var r tryResult
			if json.Unmarshal([]byte(l[4:]), &r) == nil {
				return r
			}
		}
	}
	return tryResult{Err: "no result from child: " + tail(out, 300)}
}

// try <file>: executes a plan and prints the signature of its first own-property violation.
func cmdTry(t *testing.T, args []string) int {
	plan, err := LoadPlan(args[0])
	if err != nil {
		fmt.Println("try:", err)
		return 2
	}
	b, _ := json.Marshal(tryInProcess(t, plan))
	fmt.Println("TRY " + string(b))
	return 0
}

func minimise(t *testing.T, plan *Plan, sig string, budget int) *Plan {
	best := plan.Clone()
	execs := 0
	fresh := strings.HasPrefix(sig, "data-race:") || strings.HasPrefix(sig, "fatal:")
	if fresh && budget > 60 {
		budget = 60
	}
	try := func(c *Plan) bool {
		if execs >= budget {
			return false
		}
		execs++
		var r tryResult
		if fresh {
			r = tryInFreshProcess(c)
		} else {
			r = tryInProcess(t, c)
		}
		if r.Err == "" && r.Sig == sig {
			c.Sched = r.Trace
			c.MaxSteps = len(r.Trace) + 50
			return true
		}
		return false
	}
	progress := true
	for progress && execs < budget {
		progress = false
		// drop whole tasks
		for ti := len(best.Tasks) - 1; ti >= 0 && len(best.Tasks) > 1; ti-- {
			c := best.Clone()
			c.Tasks = append(c.Tasks[:ti], c.Tasks[ti+1:]...)
			if try(c) {
				best, progress = c, true
			}
		}
		// drop chunks of transactions, then single transactions
		for ti := range best.Tasks {
			for chunk := len(best.Tasks[ti].Txs) / 2; chunk >= 1; chunk /= 2 {
				for at := len(best.Tasks[ti].Txs) - chunk; at >= 0; at -= chunk {
					if at+chunk > len(best.Tasks[ti].Txs) {
						continue
					}
					c := best.Clone()
					c.Tasks[ti].Txs = append(c.Tasks[ti].Txs[:at], c.Tasks[ti].Txs[at+chunk:]...)
					if try(c) {
						best, progress = c, true
					}
				}
			}
		}
		// drop single ops and faults
		for ti := range best.Tasks {
			for xi := len(best.Tasks[ti].Txs) - 1; xi >= 0; xi-- {
				for oi := len(best.Tasks[ti].Txs[xi].Ops) - 1; oi >= 0; oi-- {
					if oi >= len(best.Tasks[ti].Txs[xi].Ops) {
						continue
					}
					c := best.Clone()
					tx := &c.Tasks[ti].Txs[xi]
					tx.Ops = append(tx.Ops[:oi], tx.Ops[oi+1:]...)
					for fi := range tx.Faults {
						if tx.Faults[fi].At > oi {
							tx.Faults[fi].At--
						}
					}
					if try(c) {
						best, progress = c, true
					}
				}
				for fi := len(best.Tasks[ti].Txs[xi].Faults) - 1; fi >= 0; fi-- {
					c := best.Clone()
					tx := &c.Tasks[ti].Txs[xi]
					tx.Faults = append(tx.Faults[:fi], tx.Faults[fi+1:]...)
					if try(c) {
						best, progress = c, true
					}
				}
			}
		}
		for ci := len(best.Corrupt) - 1; ci >= 0; ci-- {
			c := best.Clone()
			c.Corrupt = append(c.Corrupt[:ci], c.Corrupt[ci+1:]...)
			if try(c) {
				best, progress = c, true
			}
		}
	}
	// simplify arguments: batch -> update, drop checker, drop optional fields
	for ti := range best.Tasks {
		for xi := range best.Tasks[ti].Txs {
			if best.Tasks[ti].Txs[xi].Mode == "batch" {
				c := best.Clone()
				c.Tasks[ti].Txs[xi].Mode = "update"
				if try(c) {
					best = c
				}
			}
			for oi := range best.Tasks[ti].Txs[xi].Ops {
				for _, simp := range []func(o *Op){
					func(o *Op) { o.Tags = nil },
					func(o *Op) { o.Groups = nil },
					func(o *Op) { o.Roles = nil },
					func(o *Op) { o.Nick = nil },
					func(o *Op) { o.Mentor = nil },
					func(o *Op) { o.HasChk, o.Chk = false, nil },
				} {
					c := best.Clone()
					before := c.Tasks[ti].Txs[xi].Ops[oi].String()
					simp(&c.Tasks[ti].Txs[xi].Ops[oi])
					if c.Tasks[ti].Txs[xi].Ops[oi].String() == before {
						continue
					}
					if try(c) {
						best = c
					}
				}
			}
		}
	}
	// schedule: prefer "lowest enabled task" (empty recorded schedule = pure fallback)
	c := best.Clone()
	c.Sched = []string{}
	if try(c) {
		best = c
	}
	return best
}

// minimize <in> <out>: shrinks a violating plan while the same signature persists.
func cmdMinimize(t *testing.T, args []string) int {
	plan, err := LoadPlan(args[0])
	if err != nil || plan.Violation == nil {
		fmt.Fprintln(os.Stderr, "minimize: bad input", err)
		return 2
	}
	m := minimise(t, plan, plan.Violation.Sig, 1500)
	if strings.HasPrefix(plan.Violation.Sig, "fatal:") {
		// executing it here would kill this process: every kept candidate was verified in a process of its own
		m.Violation = plan.Violation
		m.Note = fmt.Sprintf("minimised from %d ops / %d faults to %d ops / %d faults; replay: tools/check.sh %s --replay <this file>", plan.NumOps(), plan.NumFaults(), m.NumOps(), m.NumFaults(), m.Prop)
		if err := SavePlan(args[1], m); err != nil {
			return 2
		}
		return 0
	}
	res := ExecuteChecked(t, m, execOptFor(m.Prop))
	v, ok := sigOf(res, m.Prop)
	if !ok || v.Sig != plan.Violation.Sig {
		// could not reproduce in this process (e.g. a data race already reported here): keep what minimise returned
		// if it made progress, it was verified candidate by candidate
		if m.NumOps() >= plan.NumOps() {
			m = plan
		} else {
			m.Violation = plan.Violation
		}
	} else {
		m.Sched = res.Trace
		m.Violation = &v
	}
	m.Note = fmt.Sprintf("minimised from %d ops / %d faults to %d ops / %d faults; replay: tools/check.sh %s --replay <this file>", plan.NumOps(), plan.NumFaults(), m.NumOps(), m.NumFaults(), m.Prop)
	if err := SavePlan(args[1], m); err != nil {
		fmt.Fprintln(os.Stderr, "minimize:", err)
		return 2
	}
	return 0
}

// ---------- check ----------

func selfExe() string {
	p, err := os.Executable()
	if err != nil {
		return os.Args[0]
	}
	return p
}

func runChild(timeout time.Duration, args ...string) (string, int) {
	cmd := exec.Command(selfExe(), args...)
	cmd.Env = os.Environ()
	done := make(chan struct{})
	var out []byte
	var err error
	go func() {
		out, err = cmd.CombinedOutput()
		close(done)
	}()
	select {
	case <-done:
	case <-time.After(timeout):
		if cmd.Process != nil {
			_ = cmd.Process.Kill()
		}
		<-done
		return string(out) + "\n[watchdog: killed after " + timeout.String() + "]", 2
	}
	if err != nil {
		if ee, ok := err.(*exec.ExitError); ok {
			return string(out), ee.ExitCode()
		}
		return string(out) + err.Error(), 2
	}
	return string(out), 0
}

type Evidence struct {
	PropertyId  string         `json:"property_id"`
	Tier        string         `json:"tier"`
	Seed        uint64         `json:"seed"`
	Level       string         `json:"level"`
	Coverage    map[string]any `json:"coverage"`
	Assumptions []string       `json:"assumptions"`
	WallS       float64        `json:"wall_s"`
	Violations  int            `json:"violations"`
}

var components = map[string]any{
	"real":      []string{"all of github.com/openziti/storage at /repo's working tree (build tag verif: 24 added hook lines around DbImpl.reloadLock)", "go.etcd.io/bbolt v1.4.0 (scratch copy: gofail failpoints enabled, simseam hook calls inserted at Bucket.Put/Delete/CreateBucket/CreateBucketIfNotExists/DeleteBucket, Cursor.Delete, writer-lock acquire/release, commit, Batch solo re-run)", "the database file (tmpfs, /dev/shm)", "antlr4 runtime, foundation/v2"},
	"simulated": []string{"clock and timers (testing/synctest bubble)", "goroutine scheduling (seeded cooperative scheduler, lock model for reloadLock and the bbolt writer lock)", "uuid randomness (seeded reader)"},
	"stubbed":   []string{},
}

func cmdCheck(args []string) int {
	if len(args) < 2 {
		fmt.Fprintln(os.Stderr, "usage: dsim check <prop> <quick|thorough> [runs=N] [workers=N] [base=N]")
		return 2
	}
	prop, tier := args[0], args[1]
	cfg, ok := propCfgs[prop]
	if !ok {
		fmt.Fprintf(os.Stderr, "check: property %s is not claimed\n", prop)
		return 2
	}
	base := uint64(1)
	if v := os.Getenv("VERIF_SEED"); v != "" {
		if n, err := strconv.ParseUint(v, 10, 64); err == nil {
			base = n
		} else if n, err := strconv.ParseInt(v, 10, 64); err == nil {
			base = uint64(n)
		}
	}
	runs := cfg.Quick
	if tier == "thorough" {
		runs = cfg.Thorough
	}
	workers := runtime.NumCPU()
	for _, a := range args[2:] {
		if strings.HasPrefix(a, "runs=") {
			runs, _ = strconv.Atoi(a[5:])
		}
		if strings.HasPrefix(a, "workers=") {
			workers, _ = strconv.Atoi(a[8:])
		}
		if strings.HasPrefix(a, "base=") {
			base, _ = strconv.ParseUint(a[5:], 10, 64)
		}
	}
	if workers < 1 {
		workers = 1
	}
	if workers > runs {
		workers = runs
	}
	start := time.Now()
	fmt.Printf("dsim check property=%s tier=%s VERIF_SEED=%d profile=%s runs=%d workers=%d\n", prop, tier, base, cfg.Profile, runs, workers)
	tmp, err := os.MkdirTemp("/dev/shm", "dsim-check-")
	if err != nil {
		fmt.Fprintln(os.Stderr, "check:", err)
		return 2
	}
	defer os.RemoveAll(tmp)

	type wres struct {
		out  string
		code int
		file string
	}
	results := make([]wres, workers)
	done := make(chan int, workers)
	per := (runs + workers - 1) / workers
	// watchdog per worker process: generous (a hang is harness trouble, exit 2); a C07 unit is ~26 runs
	perUnit := 100 * time.Millisecond
	if prop == "C07" {
		perUnit = 1500 * time.Millisecond
	}
	timeout := 30*time.Minute + time.Duration(per)*perUnit
	for w := 0; w < workers; w++ {
		from, to := w*per, (w+1)*per
		if to > runs {
			to = runs
		}
		job := Job{Prop: prop, Profile: cfg.Profile, Base: base, From: from, To: to, Out: filepath.Join(tmp, fmt.Sprintf("w%d.json", w)), KeepMax: 6}
		jb, _ := json.Marshal(job)
		jf := filepath.Join(tmp, fmt.Sprintf("job%d.json", w))
		_ = os.WriteFile(jf, jb, 0644)
		results[w].file = job.Out
		go func(w int) {
			results[w].out, results[w].code = runChild(timeout, "worker", jf)
			done <- w
		}(w)
	}
	for i := 0; i < workers; i++ {
		<-done
	}
	total := &WorkerOut{Kinds: map[string]int{}, Trans: map[string]int{}, FaultsConf: map[string]int{}, FaultsHit: map[string]int{}, Probes: map[string]int{}, Foreign: map[string]int{}, OwnSigs: map[string]int{}}
	il, nt, states := map[uint64]bool{}, map[uint64]bool{}, map[uint64]bool{}
	for w := 0; w < workers; w++ {
		if results[w].code != 0 {
			if cv := crashViolation(results[w].out); cv != nil && cv.Has(prop) {
				if plan, err := LoadPlan(results[w].file + ".cur"); err == nil {
					total.OwnCount++
					total.OwnSigs[cv.Sig]++
					total.Own = append(total.Own, FoundViolation{Index: w, Plan: plan, Violation: *cv})
					continue
				}
			}
			fmt.Printf("worker %d failed (exit %d):\n%s\n", w, results[w].code, head(results[w].out, 4000))
			return 2
		}
		b, err := os.ReadFile(results[w].file)
		if err != nil {
			fmt.Println("check: missing worker output:", err)
			return 2
		}
		var o WorkerOut
		if err := json.Unmarshal(b, &o); err != nil {
			fmt.Println("check: bad worker output:", err)
			return 2
		}
		total.Runs += o.Runs
		total.Steps += o.Steps
		total.Ops += o.Ops
		total.Commits += o.Commits
		total.Aborts += o.Aborts
		total.SimTimeNs += o.SimTimeNs
		total.MultiRuns += o.MultiRuns
		total.OwnCount += o.OwnCount
		for _, k := range o.Interleave {
			il[k] = true
		}
		for _, k := range o.Nontrivial {
			nt[k] = true
		}
		for _, k := range o.States {
			states[k] = true
		}
		for k, v := range o.Trans {
			total.Trans[k] += v
		}
		for k, v := range o.FaultsConf {
			total.FaultsConf[k] += v
		}
		for k, v := range o.FaultsHit {
			total.FaultsHit[k] += v
		}
		for k, v := range o.Probes {
			total.Probes[k] += v
		}
		for k, v := range o.Kinds {
			total.Kinds[k] += v
		}
		for k, v := range o.Foreign {
			total.Foreign[k] += v
		}
		for k, v := range o.OwnSigs {
			total.OwnSigs[k] += v
		}
		total.Own = append(total.Own, o.Own...)
		total.HarnessErrs = append(total.HarnessErrs, o.HarnessErrs...)
		if len(total.Samples) < 3 {
			total.Samples = append(total.Samples, o.Samples...)
		}
	}
	if len(total.HarnessErrs) > 0 {
		fmt.Printf("HARNESS-ERROR (%d):\n  %s\n", len(total.HarnessErrs), strings.Join(total.HarnessErrs, "\n  "))
		return 2
	}

	// violations: one representative per signature, lowest run index first
	sort.Slice(total.Own, func(i, j int) bool { return total.Own[i].Index < total.Own[j].Index })
	known := loadKnown()
	seenSig := map[string]bool{}
	knownPrinted := map[string]bool{}
	exit := 0
	replayTrouble := false
	newViolations := 0
	for _, fv := range total.Own {
		if seenSig[fv.Violation.Sig] {
			continue
		}
		seenSig[fv.Violation.Sig] = true
		if kf := known.match(prop, fv.Violation); kf != nil {
			if !knownPrinted[kf.Sig+kf.Detail] {
				knownPrinted[kf.Sig+kf.Detail] = true
				fmt.Printf("KNOWN-FINDING: property=%s %s [sig=%s, seen in %d run(s)]\n", prop, kf.What, fv.Violation.Sig, total.OwnSigs[fv.Violation.Sig])
			}
			continue
		}
		newViolations++
		if newViolations > 3 {
			continue
		}
		// write, minimise, verify in a fresh process
		dir := filepath.Join(outRoot(), "replays")
		_ = os.MkdirAll(dir, 0755)
		raw := filepath.Join(tmp, fmt.Sprintf("viol-%d.json", fv.Index))
		fv.Plan.Violation = &fv.Violation
		_ = SavePlan(raw, fv.Plan)
		final := filepath.Join(dir, fmt.Sprintf("%s-%d-%s.json", prop, fv.Plan.Seed, sanitize(fv.Violation.Sig)))
		if out, code := runChild(15*time.Minute, "minimize", raw, final); code != 0 {
			fmt.Printf("minimize failed (exit %d): %s\n", code, tail(out, 1500))
			_ = SavePlan(final, fv.Plan)
		}
		out, code := runChild(5*time.Minute, "replay", final)
		if code != 1 && (fv.Violation.Oracle == "race-detector" || fv.Violation.Oracle == "crash" || cfg.Profile == "conc") {
			// conc profile: inside a race window the steps really overlap, so a wrong read / panic caused by shared
			// state depends on real timing as well as on the schedule
			// a data race needs both accesses inside the race detector's bounded history: retry, then fall back to
			// the unminimised plan; the race report itself stays the evidence
			for attempt := 0; attempt < 4 && code != 1; attempt++ {
				out, code = runChild(5*time.Minute, "replay", final)
			}
			if code != 1 {
				_ = SavePlan(final, fv.Plan)
				for attempt := 0; attempt < 4 && code != 1; attempt++ {
					out, code = runChild(5*time.Minute, "replay", final)
				}
			}
			if code != 1 {
				fmt.Printf("note: the violation below did not reproduce in 8 replays of %s (inside a race window the outcome depends on real overlap / the race detector's history window)\n", final)
				code = 1
			}
		}
		if code != 1 {
			// not reported as a violation. If other violations of this run replay exactly, the verdict stands on them
			// (exit 1); if none does, the check ends as harness trouble (exit 2)
			fmt.Printf("REPLAY-MISMATCH: fresh-process replay of %s did not reproduce (exit %d): %s\n", final, code, tail(out, 1500))
			replayTrouble = true
			continue
		}
		fmt.Printf("VIOLATION property=%s replay=%s\n", prop, final)
		fmt.Printf("  oracle=%s sig=%s (in %d of %d runs)\n  %s\n", fv.Violation.Oracle, fv.Violation.Sig, total.OwnSigs[fv.Violation.Sig], total.Runs, indent(fv.Violation.Detail))
		if mp, err := LoadPlan(final); err == nil {
			fmt.Printf("  %s\n", mp.Note)
		}
		exit = 1
	}

	wall := time.Since(start).Seconds()
	relevant := 0
	for k, v := range total.Trans {
		if relevantTransition(prop, k) {
			relevant += v
		}
	}
	var samples []any
	for _, s := range total.Samples {
		var v any
		_ = json.Unmarshal(s, &v)
		samples = append(samples, v)
	}
	if len(samples) == 0 {
		samples = append(samples, map[string]any{"note": "no sample recorded"})
	}
	ev := Evidence{PropertyId: prop, Tier: tier, Seed: base, Level: cfg.Level, WallS: wall, Violations: newViolations,
		Assumptions: []string{
			"sampling, not enumeration: a clean batch is evidence, not proof",
			"the harness-defined schema (11 stores wiring every index / constraint / link kind, with order- and allocation-only variants drawn per run) stands for all schemas",
			"bbolt's own transaction atomicity and durability are trusted; failed commits and clean reopen are injected, crash images and power-loss semantics are not (no listed property quantifies over crash points)",
			"the lock model mirrors DbImpl.reloadLock and bbolt's writer lock by hand",
		},
		Coverage: map[string]any{
			"evaluations":                     total.Runs,
			"distinct_nontrivial":             len(nt),
			"rule":                            "one evaluation = one simulated run of a generated plan (tasks x transactions x operations x faults) under one seeded schedule; a run is non-trivial if it committed >= 2 transactions and either a fault/rejection fired or two tasks interleaved; distinct = distinct (plan hash, schedule hash)",
			"samples":                         samples,
			"runs_per_hour":                   int(float64(total.Runs) / wall * 3600),
			"simulated_time_s":                float64(total.SimTimeNs) / 1e9,
			"scheduler_steps":                 total.Steps,
			"operations":                      total.Ops,
			"transactions_committed":          total.Commits,
			"transactions_aborted":            total.Aborts,
			"distinct_interleavings":          len(il),
			"interleaving_measure":            "hash of the (task, yield point) sequence of a run",
			"distinct_db_states":              len(states),
			"state_measure":                   "hash of the full logical dump (boltz.Traverse) after each commit",
			"distinct_transitions":            len(total.Trans),
			"transition_measure":              "(operation kind, store, outcome class, fault kind) tuples executed",
			"relevant_transitions":            relevant,
			"runs_with_two_tasks_interleaved": total.MultiRuns,
			"faults_configured":               total.FaultsConf,
			"faults_fired":                    total.FaultsHit,
			"probes":                          total.Probes,
			"foreign_violations":              total.Foreign,
			"own_violation_signatures":        total.OwnSigs,
			"known_findings_seen":             len(knownPrinted),
			"components":                      components,
			"runs_by_kind":                    total.Kinds,
			"exhaustive_per_unit":             prop == "C07",
		},
	}
	eb, _ := json.MarshalIndent(ev, "", " ")
	_ = os.MkdirAll(filepath.Join(outRoot(), "evidence"), 0755)
	if err := os.WriteFile(filepath.Join(outRoot(), "evidence", prop+".json"), eb, 0644); err != nil {
		fmt.Println("check: cannot write evidence:", err)
		return 2
	}
	fmt.Printf("runs=%d distinct_interleavings=%d distinct_states=%d nontrivial=%d commits=%d aborts=%d faults_fired=%v own_violation_runs=%d foreign=%d wall=%.1fs\n",
		total.Runs, len(il), len(states), len(nt), total.Commits, total.Aborts, total.FaultsHit, total.OwnCount, sumMap(total.Foreign), wall)
	if len(nt) < 2 && exit == 0 {
		fmt.Println("check: fewer than 2 non-trivial runs: the workload did not reach the property")
		return 2
	}
	if exit == 0 && replayTrouble {
		return 2 // something was seen, nothing could be reproduced: harness trouble, not a verdict
	}
	return exit
}

func sumMap(m map[string]int) int {
	n := 0
	for _, v := range m {
		n += v
	}
	return n
}

func relevantTransition(prop, key string) bool {
	parts := strings.Split(key, "/")
	if len(parts) < 3 {
		return false
	}
	kind, store := parts[0], parts[1]
	switch prop {
	case "C03":
		return (kind == "create" || kind == "update" || kind == "delete") && (store == StPeople || store == StStaff || store == StPX || store == StDepts)
	case "C04":
		return kind == "create" || kind == "update" || kind == "delete" || kind == "deleteWhere"
	case "C05":
		return strings.Contains("addLinks removeLinks setLinks addLink removeLink incr decr setCount", kind) || (kind == "delete" && (store == StGroups || store == StPeople))
	case "C06":
		return kind == "delete" || kind == "deleteWhere" || kind == "create"
	case "C15":
		return store == StStaff || store == StPX || store == StPeople
	case "C16":
		return store == StPeople || store == StStaff || store == StPX
	}
	return true
}

func sanitize(s string) string {
	var b strings.Builder
	for _, c := range s {
		if (c >= 'a' && c <= 'z') || (c >= 'A' && c <= 'Z') || (c >= '0' && c <= '9') || c == '-' {
			b.WriteRune(c)
		} else {
			b.WriteRune('_')
		}
	}
	r := b.String()
	if len(r) > 60 {
		r = r[:60]
	}
	return r
}

func indent(s string) string {
	lines := strings.Split(s, "\n")
	if len(lines) > 28 {
		lines = append(lines[:28], fmt.Sprintf("... (%d more lines in the replay file)", len(lines)-28))
	}
	return strings.Join(lines, "\n  ")
}

func tail(s string, n int) string {
	if len(s) > n {
		return "..." + s[len(s)-n:]
	}
	return s
}

// digest <profile> <prop> <base> <n>: one line per run with a digest of everything observable about it.
func cmdDigest(t *testing.T, args []string) int {
	profile, prop := args[0], args[1]
	base, _ := strconv.ParseUint(args[2], 10, 64)
	n, _ := strconv.Atoi(args[3])
	from := 0
	if len(args) > 4 { // digest <profile> <prop> <base> <n> <from>: only the runs from..n-1
		from, _ = strconv.Atoi(args[4])
	}
	for i := from; i < n; i++ {
		plan := genFor(profile, prop, runSeed(base, i))
		opt := execOptFor(prop)
		dump := os.Getenv("DSIM_DIGEST_DUMP") == strconv.Itoa(i)
		opt.Log = dump
		res := ExecuteChecked(t, plan, opt)
		if dump {
			for _, l := range res.Log {
				fmt.Println("   ", l)
			}
			res.Log = nil
			for k, tr := range res.Trace {
				fmt.Println("    TRACE", k, tr)
			}
		}
		res.SimTimeNs = 0
		b, _ := json.Marshal(res)
		fmt.Printf("%d %016x steps=%d viol=%d herr=%q\n", i, hashBytes(b), res.Steps, len(res.Violations), res.HarnessErr)
	}
	return 0
}

// selftest [n=N]: determinism proof. The same seeds are executed in many processes at GOMAXPROCS 1, 4 and 16 and
// the per-run digests (schedule, states, transitions, violations) must be byte-identical.
func cmdSelftest(args []string) int {
	n := 150
	procs := 10
	for _, a := range args {
		if strings.HasPrefix(a, "n=") {
			n, _ = strconv.Atoi(a[2:])
		}
		if strings.HasPrefix(a, "procs=") {
			procs, _ = strconv.Atoi(a[6:])
		}
	}
	type pp struct{ profile, prop string }
	var list []pp
	seen := map[string]bool{}
	var props []string
	for p := range propCfgs {
		props = append(props, p)
	}
	sort.Strings(props)
	for _, p := range props {
		c := propCfgs[p]
		if !seen[c.Profile+"/"+p] {
			seen[c.Profile+"/"+p] = true
			list = append(list, pp{c.Profile, p})
		}
	}
	bad := 0
	for _, e := range list {
		var ref string
		type r struct {
			out  string
			code int
			gmp  string
		}
		ch := make(chan r, 3*procs)
		cnt := 0
		for _, gmp := range []string{"1", "4", "16"} {
			for k := 0; k < procs; k++ {
				cnt++
				go func(gmp string) {
					cmd := exec.Command(selfExe(), "digest", e.profile, e.prop, "7", strconv.Itoa(n))
					cmd.Env = append(os.Environ(), "GOMAXPROCS="+gmp)
					out, err := cmd.CombinedOutput()
					code := 0
					if err != nil {
						code = 2
					}
					ch <- r{string(out), code, gmp}
				}(gmp)
			}
		}
		diverged := 0
		for i := 0; i < cnt; i++ {
			x := <-ch
			lines := filterDigest(x.out)
			if x.code != 0 {
				fmt.Printf("selftest %s/%s: process failed: %s\n", e.profile, e.prop, tail(x.out, 800))
				bad++
				continue
			}
			if ref == "" {
				ref = lines
			} else if lines != ref {
				diverged++
				if diverged == 1 {
					fmt.Printf("selftest %s/%s: DIVERGENCE at GOMAXPROCS=%s\n%s\n", e.profile, e.prop, x.gmp, firstDiff(ref, lines))
				}
			}
		}
		fmt.Printf("selftest %s/%s: %d processes x %d seeds, diverged=%d\n", e.profile, e.prop, cnt, n, diverged)
		bad += diverged
	}
	if bad > 0 {
		return 2
	}
	fmt.Println("selftest: deterministic")
	return 0
}

func filterDigest(out string) string {
	var keep []string
	for _, l := range strings.Split(out, "\n") {
		if len(l) > 0 && l[0] >= '0' && l[0] <= '9' {
			keep = append(keep, l)
		}
	}
	return strings.Join(keep, "\n")
}

func firstDiff(a, b string) string {
	al, bl := strings.Split(a, "\n"), strings.Split(b, "\n")
	for i := 0; i < len(al) && i < len(bl); i++ {
		if al[i] != bl[i] {
			return "  ref: " + al[i] + "\n  got: " + bl[i]
		}
	}
	return fmt.Sprintf("  length %d vs %d", len(al), len(bl))
}

// curPlanFile: where the worker leaves the plan it is about to execute, so that the driver can attribute a crash of
// the whole process (Go's unrecoverable "concurrent map writes" and the like) to a plan.
var curPlanFile string

// ExecuteChecked = Execute + the oracles that live outside the bubble (race detector log for C18).
func ExecuteChecked(t *testing.T, plan *Plan, opt ExecOpt) *RunResult {
	res := Execute(t, plan, opt)
	if plan.Profile == "conc" {
		own, foreign := newRaceReports()
		if foreign > 0 {
			if res.Probes == nil {
				res.Probes = map[string]int{}
			}
			res.Probes["data_race_reports_outside_repository"] += foreign
		}
		seen := map[string]bool{}
		for _, rep := range own {
			sig := raceSignature(rep)
			if seen[sig] {
				continue
			}
			seen[sig] = true
			if len(rep) > 6000 {
				rep = rep[:6000] + "\n   ..."
			}
			res.Violations = append(res.Violations, Violation{Props: []string{"C18"}, Oracle: "race-detector", Sig: sig,
				Detail: "the Go race detector reported (steps of a race window run without mutual ordering):\n" + rep})
		}
	}
	return res
}

var panicRe = regexp.MustCompile(`(?m)^panic: `)
var unlockRe = regexp.MustCompile(`(?m)^fatal error: sync: R?Unlock of unlocked RWMutex`)
var overflowRe = regexp.MustCompile(`(?m)^fatal error: stack overflow`)
var libFrameRe = regexp.MustCompile(`(?m)^github\.com/openziti/storage/(?:boltz|ast)\.([^\s(]*(?:\([^)]*\))?[^\s(]*)\(`)
var fatalRe = regexp.MustCompile(`(?m)^fatal error: (concurrent map[^\n]*)`)
var faultRe = regexp.MustCompile(`(?m)^(unexpected fault address|fatal error: fault|\[signal SIG(BUS|SEGV)[^\n]*)`)

// crashViolation recognises a process-level crash caused by the library under test: unsynchronised map access
// (conc profile), or a memory fault while a snapshot file is opened / marked / restored (snap profile: a snapshot
// that is not a consistent copy makes bbolt fault on its mmap).
func crashViolation(output string) *Violation {
	if !strings.Contains(output, "github.com/openziti/storage/") {
		return nil
	}
	excerptFrom := func(idx int) string {
		e := output[idx:]
		if len(e) > 3000 {
			e = e[:3000] + "\n   ..."
		}
		return e
	}
	if m := fatalRe.FindStringSubmatchIndex(output); m != nil {
		return &Violation{Props: []string{"C18"}, Oracle: "crash", Sig: "fatal:" + strings.ReplaceAll(output[m[2]:m[3]], " ", "-"),
			Detail: "the process died with an unrecoverable runtime error while steps of a race window ran concurrently:\n" + excerptFrom(m[0])}
	}
	if m := panicRe.FindStringIndex(output); m != nil && strings.Contains(output[m[0]:], ").processPostCommit(") && !strings.Contains(output[m[0]:], "dsim/dsim.(*Run).") {
		// the library's own delivery of an entity event panicked on the goroutine that commits (a Batch timer goroutine
		// is not a task, nobody can recover there): an event that is not delivered "exactly once, with the entity's state"
		return &Violation{Props: []string{"C08"}, Oracle: "crash", Sig: "fatal:panic-in-post-commit-delivery",
			Detail: "the process died with a panic inside the library's post-commit event delivery:\n" + excerptFrom(m[0])}
	}
	if m := unlockRe.FindStringIndex(output); m != nil && strings.Contains(output[m[0]:], "boltz.(*DbImpl).") {
		// the reload lock released by somebody who does not hold it: the lock discipline around snapshot / restore
		return &Violation{Props: []string{"C17"}, Oracle: "crash", Sig: "fatal:unlock-of-unlocked-reload-lock",
			Detail: "the process died releasing DbImpl's reload lock without holding it:\n" + excerptFrom(m[0])}
	}
	if m := overflowRe.FindStringIndex(output); m != nil {
		// unbounded recursion: the first library frame of the overflowing goroutine names it. Every history property
		// needs its API calls to return; the stored state the call choked on was produced through the API
		if fm := libFrameRe.FindStringSubmatch(output[m[0]:]); fm != nil {
			return &Violation{Props: []string{"C03", "C04", "C05", "C06", "C07", "C08", "C15", "C16"}, Oracle: "crash", Sig: "fatal:stack-overflow-in-library",
				Detail: "the process died with a stack overflow (unbounded recursion) inside the library, top frame " + fm[1] + ":\n" + excerptFrom(m[0])}
		}
	}
	if m := faultRe.FindStringIndex(output); m != nil {
		for _, fn := range []string{"MarkAsSnapshot", "SnapshotInTx", "RestoreFromReader", "RestoreSnapshot", "StreamToWriter"} {
			if strings.Contains(output, "boltz.(*DbImpl)."+fn) {
				return &Violation{Props: []string{"C17"}, Oracle: "crash", Sig: "fatal:memory-fault-in-" + fn,
					Detail: "the process died with a memory fault inside " + fn + " (a snapshot file that is not a consistent copy of one committed state):\n" + excerptFrom(m[0])}
			}
		}
	}
	return nil
}

func head(s string, n int) string {
	if len(s) > n {
		return s[:n] + "..."
	}
	return s
}
