package dsim

// C18: concurrent use. Readers / one writer (views.go) plus helper tasks that parse filters, resolve symbols and
// call the error-classification helpers. Results must equal what the same calls produced in the serial prologue
// of the run; the race detector (binary built with -race, steps released together in race windows) must report
// nothing with a github.com/openziti/storage frame.

import (
	"errors"
	"fmt"
	"os"
	"path/filepath"
	"regexp"
	"strings"

	"github.com/openziti/storage/ast"
	"github.com/openziti/storage/boltz"
)

var helperQueries = []string{
	`name = "n1"`,
	`anyOf(roles) = "r1" sort by name skip 1 limit 3`,
	`name = "n2" and dept = "d1"`,
	`true limit 2`,
	`name = "n3" or nick = "k1" sort by name desc`,
	`isEmpty(roles)`,
	`anyOf(groups) = "g1"`,
	`name = `,
	`name == "x"`,
	`anyOf(roles = "r"`,
	`name = "n`,
	`nosuch = 1`,
	`name = "x" $`,
	``,
	`createdAt > datetime(2020-01-01T00:00:00Z)`,
	`createdAt > datetime(2021-02-03T04:05:06Z) and updatedAt < datetime(2031-01-01T00:00:00Z)`,
	`updatedAt >= datetime(2022-03-04T05:06:07Z)`,
	`createdAt < datetime(2023-04-05T06:07:08Z) sort by createdAt`,
	`updatedAt between datetime(2019-01-01T00:00:00Z) and datetime(2029-01-01T00:00:00Z)`,
	`anyOf(mentees.name) = "n1"`,
	`dept.name = "dn1"`,
	`anyOf(badges.id) = "b1"`,
}

var helperSymbols = []string{"name", "roles", "dept", "dept.name", "tags.tk1", "groups", "mentor.name", "nosuch", "badges", "id", "mentees.name", "isSystem"}

func renderParse(store boltz.Store, text string) string {
	q, err := ast.Parse(store, text)
	if err != nil {
		return "ERR " + err.Error()
	}
	var sorts []string
	for _, sf := range q.GetSortFields() {
		sorts = append(sorts, fmt.Sprintf("%s:%v", sf.Symbol(), sf.IsAscending()))
	}
	p64 := func(p *int64) string {
		if p == nil {
			return "nil"
		}
		return fmt.Sprint(*p)
	}
	return fmt.Sprintf("OK %s | sort=%v skip=%s limit=%s", q.String(), sorts, p64(q.GetSkip()), p64(q.GetLimit()))
}

func renderSymbol(store boltz.Store, name string) string {
	sym := store.GetSymbol(name)
	if sym == nil {
		return "nil"
	}
	linked := "-"
	if lt := sym.GetLinkedType(); lt != nil {
		linked = lt.GetEntityType()
	}
	return fmt.Sprintf("%s type=%v set=%v path=%v linked=%s", sym.GetName(), sym.GetType(), sym.IsSet(), sym.GetPath(), linked)
}

func sampleErrors() []error {
	ref := boltz.NewReferenceByIdError("people", "p1", "tickets", "t1", "assignee")
	dup := &boltz.UniqueIndexDuplicateError{Field: "name", Value: "n1", EntityType: "people"}
	nf := boltz.NewNotFoundError("people", "id", "p9")
	return []error{ref, dup, nf, fmt.Errorf("wrapped: %w", ref), fmt.Errorf("wrapped: %w", dup), fmt.Errorf("wrapped: %w", nf), errors.New("plain"), nil}
}

func renderIsErr(i int) string {
	errs := sampleErrors()
	e := errs[i%len(errs)]
	return fmt.Sprintf("ref=%v dup=%v notfound=%v", boltz.IsReferenceExistsError(e), boltz.IsUniqueIndexDuplicateError(e), boltz.IsErrNotFoundErr(e))
}

func (r *Run) evalHelper(op Op) (res string) {
	defer func() {
		if p := recover(); p != nil {
			switch p.(type) {
			case abortSig, injectedPanic:
				panic(p)
			}
			res = fmt.Sprintf("PANIC %v", p)
		}
	}()
	switch op.K {
	case "parse":
		return renderParse(r.st.ByName(op.S), helperQueries[op.N%len(helperQueries)])
	case "symbol":
		return renderSymbol(r.st.ByName(op.S), helperSymbols[op.N%len(helperSymbols)])
	case "iserr":
		return renderIsErr(op.N)
	}
	return "?"
}

// helperPrologue evaluates every helper call of the plan once, serially, before any task runs.
func (r *Run) helperPrologue() {
	r.helperExp = map[string]string{}
	for _, t := range r.plan.Tasks {
		for _, tx := range t.Txs {
			if tx.Mode != "helper" {
				continue
			}
			for _, op := range tx.Ops {
				k := op.String()
				if _, ok := r.helperExp[k]; !ok {
					r.helperExp[k] = r.evalHelper(op)
				}
			}
		}
	}
}

func (r *Run) execHelperTx(t *Task, idx int, tx *TxPlan) {
	for i, op := range tx.Ops {
		t.Yield("helper.step", NeedNone)
		got := r.evalHelper(op)
		want := r.helperExp[op.String()]
		r.bump(&r.res.Trans, "helper:"+op.K+"/"+op.S+"//")
		if got != want {
			r.violate(Violation{Props: []string{"C18"}, Oracle: "helpers", Sig: "helper-result-differs:" + op.K,
				Detail: fmt.Sprintf("%s.%d step %d %s under concurrency:\n   got:    %s\n   serial: %s", t.Name, idx, i, op, got, want)})
			panic(abortSig{})
		}
	}
	t.Yield("helper.end", NeedNone)
}

func (g *gen) genHelpers(n int) []Op {
	var ops []Op
	for i := 0; i < n; i++ {
		switch g.r.IntN(4) {
		case 0, 1:
			ops = append(ops, Op{K: "parse", S: pick(g.r, []string{StPeople, StPeople, StStaff, StGroups}), N: g.r.IntN(len(helperQueries))})
		case 2:
			ops = append(ops, Op{K: "symbol", S: pick(g.r, []string{StPeople, StStaff, StPX}), N: g.r.IntN(len(helperSymbols))})
		case 3:
			ops = append(ops, Op{K: "iserr", N: g.r.IntN(8)})
		}
	}
	return ops
}

// ---------- race detector log ----------

var raceLogRead = map[string]int64{}

var raceSplit = regexp.MustCompile(`(?m)^==================\n`)

// newRaceReports returns the data race reports written since the last call that contain a frame of the
// repository under test (reports entirely inside third-party code are counted separately).
func newRaceReports() (own []string, foreign int) {
	prefix := ""
	for _, f := range strings.Fields(os.Getenv("GORACE")) {
		if strings.HasPrefix(f, "log_path=") {
			prefix = strings.TrimPrefix(f, "log_path=")
		}
	}
	if prefix == "" {
		return nil, 0
	}
	// the runtime appends ".<pid>" to log_path; only this process' reports belong to this process' runs
	files, _ := filepath.Glob(fmt.Sprintf("%s.%d", prefix, os.Getpid()))
	for _, f := range files {
		b, err := os.ReadFile(f)
		if err != nil {
			continue
		}
		off := raceLogRead[f]
		if int64(len(b)) <= off {
			continue
		}
		raceLogRead[f] = int64(len(b))
		for _, blk := range raceSplit.Split(string(b[off:]), -1) {
			if !strings.Contains(blk, "DATA RACE") {
				continue
			}
			if strings.Contains(blk, "github.com/openziti/storage/") {
				own = append(own, blk)
			} else {
				foreign++
			}
		}
	}
	return own, foreign
}

var frameRe = regexp.MustCompile(`(?m)^  (github\.com/openziti/storage/[^\s(]+)`)

// raceSignature: the first repository function in the report (stable across runs).
func raceSignature(report string) string {
	if m := frameRe.FindStringSubmatch(report); m != nil {
		fn := strings.TrimPrefix(m[1], "github.com/openziti/storage/")
		return "data-race:" + fn
	}
	return "data-race:?"
}
