package dsim

// C18: concurrent use. Readers / one writer (views.go) plus helper tasks that parse filters, resolve symbols and
// call the error-classification helpers. Results must equal what the same calls produced in the serial prologue
// of the run; the race detector (binary built with -race, steps released together in race windows) must report
// nothing with a github.com/openziti/storage frame.

import (
	"errors"
	"fmt"
	"os"
	"path/filepath"
	"regexp"
	"sort"
	"strings"
	"time"

	"github.com/openziti/storage/ast"
	"github.com/openziti/storage/boltz"
)

var helperQueries = []string{
	`name = "n1"`,
	`anyOf(roles) = "r1" sort by name skip 1 limit 3`,
	`name = "n2" and dept = "d1"`,
	`true limit 2`,
	`name = "n3" or alias = "k1" sort by name desc`,
	`isEmpty(roles)`,
	`anyOf(groups) = "g1"`,
	`name = `,
	`name == "x"`,
	`anyOf(roles = "r"`,
	`name = "n`,
	`nosuch = 1`,
	`name = "x" $`,
	``,
	`createdAt > datetime(2020-01-01T00:00:00Z)`,
	`createdAt > datetime(2021-02-03T04:05:06Z) and updatedAt < datetime(2031-01-01T00:00:00Z)`,
	`updatedAt >= datetime(2022-03-04T05:06:07Z)`,
	`createdAt < datetime(2023-04-05T06:07:08Z) sort by createdAt`,
	`updatedAt between datetime(2019-01-01T00:00:00Z) and datetime(2029-01-01T00:00:00Z)`,
	`anyOf(mentees.name) = "n1"`,
	`dept.name = "dn1"`,
	`anyOf(badges.id) = "b1"`,
}

var helperSymbols = []string{"name", "roles", "dept", "dept.name", "tags.tk1", "groups", "mentor.name", "nosuch", "badges", "id", "mentees.name", "isSystem", "alias"}

func renderParse(store boltz.Store, text string) string {
	q, err := ast.Parse(store, text)
	if err != nil {
		return "ERR " + err.Error()
	}
	var sorts []string
	for _, sf := range q.GetSortFields() {
		sorts = append(sorts, fmt.Sprintf("%s:%v", sf.Symbol(), sf.IsAscending()))
	}
	p64 := func(p *int64) string {
		if p == nil {
			return "nil"
		}
		return fmt.Sprint(*p)
	}
	return fmt.Sprintf("OK %s | sort=%v skip=%s limit=%s", q.String(), sorts, p64(q.GetSkip()), p64(q.GetLimit()))
}

func renderSymbol(store boltz.Store, name string) string {
	sym := store.GetSymbol(name)
	if sym == nil {
		return "nil"
	}
	linked := "-"
	if lt := sym.GetLinkedType(); lt != nil {
		linked = lt.GetEntityType()
	}
	return fmt.Sprintf("%s type=%v set=%v path=%v linked=%s", sym.GetName(), sym.GetType(), sym.IsSet(), sym.GetPath(), linked)
}

func sampleErrors() []error {
	ref := boltz.NewReferenceByIdError("people", "p1", "tickets", "t1", "assignee")
	dup := &boltz.UniqueIndexDuplicateError{Field: "name", Value: "n1", EntityType: "people"}
	nf := boltz.NewNotFoundError("people", "id", "p9")
	return []error{ref, dup, nf, fmt.Errorf("wrapped: %w", ref), fmt.Errorf("wrapped: %w", dup), fmt.Errorf("wrapped: %w", nf), errors.New("plain"), nil}
}

func renderIsErr(i int) string {
	errs := sampleErrors()
	e := errs[i%len(errs)]
	return fmt.Sprintf("ref=%v dup=%v notfound=%v", boltz.IsReferenceExistsError(e), boltz.IsUniqueIndexDuplicateError(e), boltz.IsErrNotFoundErr(e))
}

func (r *Run) evalHelper(op Op) (res string) {
	defer func() {
		if p := recover(); p != nil {
			switch p.(type) {
			case abortSig, injectedPanic:
				panic(p)
			}
			res = fmt.Sprintf("PANIC %v", p)
		}
	}()
	switch op.K {
	case "parse":
		if op.N < 0 {
			// a datetime literal nobody has parsed before in this process (drawn from the plan's seed)
			return renderParse(r.st.ByName(op.S), fmt.Sprintf(`createdAt > datetime(%s) and updatedAt < datetime(%s)`, op.Name, op.Q))
		}
		return renderParse(r.st.ByName(op.S), helperQueries[op.N%len(helperQueries)])
	case "symbol":
		return renderSymbol(r.st.ByName(op.S), helperSymbols[op.N%len(helperSymbols)])
	case "iserr":
		return renderIsErr(op.N)
	case "ispublic":
		return fmt.Sprint(r.st.ByName(op.S).IsPublicSymbol(op.Name))
	}
	return "?"
}

// helperPrologue evaluates every helper call of the plan once, serially, before any task runs.
func (r *Run) helperPrologue() {
	r.helperExp = map[string]string{}
	for _, t := range r.plan.Tasks {
		for _, tx := range t.Txs {
			if tx.Mode != "helper" {
				continue
			}
			for _, op := range tx.Ops {
				if (op.K == "parse" || op.K == "ispublic") && op.N < 0 {
					continue // first evaluated concurrently, compared with a serial evaluation after the run
				}
				k := op.String()
				if _, ok := r.helperExp[k]; !ok {
					r.helperExp[k] = r.evalHelper(op)
				}
			}
		}
	}
}

func (r *Run) execHelperTx(t *Task, idx int, tx *TxPlan) {
	for i, op := range tx.Ops {
		t.Yield("helper.step", NeedNone)
		got := r.evalHelper(op)
		want, pinned := r.helperExp[op.String()]
		r.bump(&r.res.Trans, "helper:"+op.K+"/"+op.S+"//")
		if !pinned {
			r.mu.Lock()
			if r.helperSeen == nil {
				r.helperSeen = map[string][]string{}
			}
			r.helperSeen[op.String()] = append(r.helperSeen[op.String()], got)
			r.mu.Unlock()
			continue
		}
		if got != want {
			if r.violate(Violation{Props: []string{"C18"}, Oracle: "helpers", Sig: "helper-result-differs:" + op.K,
				Detail: fmt.Sprintf("%s.%d step %d %s under concurrency:\n   got:    %s\n   serial: %s", t.Name, idx, i, op, got, want)}) {
				panic(abortSig{})
			}
		}
	}
	t.Yield("helper.end", NeedNone)
}

// helperEpilogue: calls whose first evaluation happened under concurrency are evaluated once more, serially.
func (r *Run) helperEpilogue() {
	var keys []string
	for k := range r.helperSeen {
		keys = append(keys, k)
	}
	sort.Strings(keys)
	for _, k := range keys {
		var op Op
		if jsonUnmarshal(k, &op) != nil {
			continue
		}
		want := r.evalHelper(op)
		for _, got := range r.helperSeen[k] {
			if got != want {
				r.viols = append(r.viols, Violation{Props: []string{"C18"}, Oracle: "helpers", Sig: "helper-result-differs:" + op.K,
					Detail: fmt.Sprintf("%s under concurrency:\n   got:    %s\n   serial: %s", op, got, want)})
				return
			}
		}
	}
}

func (g *gen) genHelpers(n int) []Op {
	var ops []Op
	if g.r.IntN(4) == 0 {
		// a client validating the symbols of incoming queries against one child store: name after name
		for i := 0; i < n+2; i++ {
			ops = append(ops, Op{K: "ispublic", S: pick(g.r, []string{StPX, StPX, StStaff}), N: -1, Name: pick(g.r, []string{"groups", "mentees", "badges", "kudos", "roles", "nosuch"})})
		}
		return ops
	}
	for i := 0; i < n; i++ {
		if g.r.IntN(3) == 0 {
			lit := func() string { return time.Unix(946684800+int64(g.r.IntN(1<<30)), 0).UTC().Format(time.RFC3339) }
			ops = append(ops, Op{K: "parse", S: StPeople, N: -1, Name: lit(), Q: lit()})
			continue
		}
		if g.r.IntN(6) == 0 {
			// is a symbol public? Asked through a child store for names nobody has asked about before (map elements:
			// there is no end to them), and for ordinary ones
			name := pick(g.r, []string{"name", "roles", "tags", "nosuch"})
			n := g.r.IntN(4)
			if g.r.IntN(2) == 0 {
				name, n = pick(g.r, []string{"groups", "mentees", "badges", "kudos"}), -1
			}
			ops = append(ops, Op{K: "ispublic", S: pick(g.r, []string{StStaff, StPX, StPeople}), N: n, Name: name})
			continue
		}
		switch g.r.IntN(4) {
		case 0, 1:
			ops = append(ops, Op{K: "parse", S: pick(g.r, []string{StPeople, StPeople, StStaff, StGroups}), N: g.r.IntN(len(helperQueries))})
		case 2:
			ops = append(ops, Op{K: "symbol", S: pick(g.r, []string{StPeople, StStaff, StPX}), N: g.r.IntN(len(helperSymbols))})
		case 3:
			ops = append(ops, Op{K: "iserr", N: g.r.IntN(8)})
		}
	}
	return ops
}

// ---------- race detector log ----------

var raceLogRead = map[string]int64{}

var raceSplit = regexp.MustCompile(`(?m)^==================\n`)

// newRaceReports returns the data race reports written since the last call that contain a frame of the
// repository under test (reports entirely inside third-party code are counted separately).
func newRaceReports() (own []string, foreign int) {
	prefix := ""
	for _, f := range strings.Fields(os.Getenv("GORACE")) {
		if strings.HasPrefix(f, "log_path=") {
			prefix = strings.TrimPrefix(f, "log_path=")
		}
	}
	if prefix == "" {
		return nil, 0
	}
	// the runtime appends ".<pid>" to log_path; only this process' reports belong to this process' runs
	files, _ := filepath.Glob(fmt.Sprintf("%s.%d", prefix, os.Getpid()))
	for _, f := range files {
		b, err := os.ReadFile(f)
		if err != nil {
			continue
		}
		off := raceLogRead[f]
		if int64(len(b)) <= off {
			continue
		}
		raceLogRead[f] = int64(len(b))
		for _, blk := range raceSplit.Split(string(b[off:]), -1) {
			if !strings.Contains(blk, "DATA RACE") {
				continue
			}
			if strings.Contains(blk, "github.com/openziti/storage/") {
				own = append(own, blk)
			} else {
				foreign++
			}
		}
	}
	return own, foreign
}

var frameRe = regexp.MustCompile(`(?m)^  (github\.com/openziti/storage/\S+)\(\)$`)

// raceSignature: the first repository function in the report (stable across runs).
func raceSignature(report string) string {
	if m := frameRe.FindStringSubmatch(report); m != nil {
		fn := strings.TrimPrefix(m[1], "github.com/openziti/storage/")
		return "data-race:" + fn
	}
	return "data-race:?"
}
