package dsim

// Ledger of everything the library calls back: entity listeners of every registration style, constraints'
// post-commit hooks, commit actions, tx-complete listeners, restore listeners. Compared at quiescence with what
// the committed history prescribes (C08) and, for failed transactions, with "nothing" (C07).

import (
	"fmt"
	"sort"
	"strings"
	"sync"

	"github.com/openziti/storage/boltz"
)

type LedgerEntry struct {
	Listener   string // L1..L6
	Store      string
	Type       string // C U D
	Id         string
	Snap       string
	Seq        uint64
	DuringBody bool // delivered while a transaction body was executing on the delivering goroutine => before commit
}

func (e LedgerEntry) key() string {
	return strings.Join([]string{e.Listener, e.Store, e.Type, e.Id, e.Snap}, "|")
}

type Ledger struct {
	mu         sync.Mutex
	Entries    []LedgerEntry
	CommitActs map[string]int // tag -> executions
	PreActs    map[string]int // pre-commit actions: tag -> executions
	expPre     map[string]int
	TxComplete map[string]int // tx id -> calls
	Restores   int

	expected   map[string]int // key -> count (exactly)
	optional   map[string]int // key -> count (at most)
	expCommit  map[string]int
	expTxDone  map[string]int // exactly once
	optTxDone  map[string]int // at most once (Batch)
	everyEvent int
}

func NewLedger() *Ledger {
	return &Ledger{PreActs: map[string]int{}, expPre: map[string]int{}, CommitActs: map[string]int{}, TxComplete: map[string]int{}, expected: map[string]int{}, optional: map[string]int{},
		expCommit: map[string]int{}, expTxDone: map[string]int{}, optTxDone: map[string]int{}}
}

var listenerKinds = []string{"L1", "L2", "L3", "L5", "L6", "L12", "L13", "L14"}

// Expect registers the events of a committed operation.
func (l *Ledger) Expect(evs []Ev) {
	l.mu.Lock()
	defer l.mu.Unlock()
	for _, e := range evs {
		for _, k := range listenerKinds {
			key := LedgerEntry{Listener: k, Store: e.Store, Type: e.Type, Id: e.Id, Snap: e.Snap}.key()
			if e.Optional {
				l.optional[key]++
			} else {
				l.expected[key]++
			}
		}
		if e.Type == EvDelete {
			key := LedgerEntry{Listener: "L4", Store: e.Store, Type: e.Type, Id: e.Id, Snap: "id"}.key()
			if e.Optional {
				l.optional[key]++
			} else {
				l.expected[key]++
			}
		}
		// listeners registered for several change types in ONE call cannot tell the types apart: type "*"
		for _, k := range []string{"L7", "L8", "L9", "L10"} {
			snap := e.Snap
			if k == "L7" {
				snap = "id"
			}
			key := LedgerEntry{Listener: k, Store: e.Store, Type: "*", Id: e.Id, Snap: snap}.key()
			if e.Optional {
				l.optional[key]++
			} else {
				l.expected[key]++
			}
		}
	}
}

func (l *Ledger) record(e LedgerEntry) {
	l.mu.Lock()
	l.Entries = append(l.Entries, e)
	l.mu.Unlock()
}

// Check compares the recorded callbacks with the expectations. Called at quiescence.
func (l *Ledger) Check() []Violation {
	l.mu.Lock()
	defer l.mu.Unlock()
	var out []Violation
	got := map[string]int{}
	for _, e := range l.Entries {
		got[e.key()]++
		if e.DuringBody {
			out = append(out, Violation{Props: []string{"C08", "C07"}, Oracle: "ledger", Sig: "event-before-commit:" + e.Listener + ":" + e.Store + ":" + e.Type,
				Detail: fmt.Sprintf("listener %s on %s got %s event for %q while the transaction body was still running (before commit)", e.Listener, e.Store, e.Type, e.Id)})
		}
	}
	keys := map[string]bool{}
	for k := range got {
		keys[k] = true
	}
	for k := range l.expected {
		keys[k] = true
	}
	var sorted []string
	for k := range keys {
		sorted = append(sorted, k)
	}
	sort.Strings(sorted)
	for _, k := range sorted {
		g, want, opt := got[k], l.expected[k], l.optional[k]
		if g < want || g > want+opt {
			parts := strings.SplitN(k, "|", 5)
			kind := "missing"
			props := []string{"C08"}
			if g > want+opt {
				kind = "extra"
				// an event nobody committed: also "no listener runs for a failed transaction"
				props = []string{"C08", "C07"}
			}
			style := parts[0]
			if strings.HasPrefix(style, "L11:") {
				style = "L11" // registered in flight; the tag names the registering operation
			}
			out = append(out, Violation{Props: props, Oracle: "ledger", Sig: fmt.Sprintf("event-%s:%s:%s:%s", kind, style, parts[1], parts[2]),
				Detail: fmt.Sprintf("listener %s on store %s, %s event for id %q: delivered %d time(s), the committed history prescribes %d (+%d optional); state %s", parts[0], parts[1], parts[2], parts[3], g, want, opt, parts[4])})
		}
	}
	var tags []string
	for t := range l.CommitActs {
		tags = append(tags, t)
	}
	for t := range l.expCommit {
		if _, ok := l.CommitActs[t]; !ok {
			tags = append(tags, t)
		}
	}
	sort.Strings(tags)
	for _, t := range tags {
		if l.CommitActs[t] != l.expCommit[t] {
			kind := "missing"
			props := []string{"C08"}
			if l.CommitActs[t] > l.expCommit[t] {
				kind = "extra"
				if l.expCommit[t] == 0 {
					props = []string{"C08", "C07"}
				}
			}
			out = append(out, Violation{Props: props, Oracle: "ledger", Sig: "commit-action-" + kind,
				Detail: fmt.Sprintf("commit action %s ran %d time(s), expected %d", t, l.CommitActs[t], l.expCommit[t])})
		}
	}
	var pres []string
	for t := range l.expPre {
		pres = append(pres, t)
	}
	for t := range l.PreActs {
		if _, ok := l.expPre[t]; !ok {
			pres = append(pres, t) // ran although its attempt did not commit: tolerated (it may be what made it fail)
			l.expPre[t] = l.PreActs[t]
		}
	}
	sort.Strings(pres)
	for _, t := range pres {
		// a pre-commit action of a committed attempt ran exactly once before that commit (an action that is never run
		// cannot fail the transaction it was registered to guard)
		if l.PreActs[t] != l.expPre[t] {
			out = append(out, Violation{Props: []string{"C07"}, Oracle: "ledger", Sig: "pre-commit-action-count",
				Detail: fmt.Sprintf("pre-commit action %s of a committed transaction ran %d time(s), expected %d", t, l.PreActs[t], l.expPre[t])})
		}
	}
	var txs []string
	for t := range l.TxComplete {
		txs = append(txs, t)
	}
	for t := range l.expTxDone {
		if _, ok := l.TxComplete[t]; !ok {
			txs = append(txs, t)
		}
	}
	sort.Strings(txs)
	for _, t := range txs {
		g, want, opt := l.TxComplete[t], l.expTxDone[t], l.optTxDone[t]
		if g < want || g > want+opt {
			props := []string{"C08"}
			if want+opt == 0 {
				props = []string{"C08", "C07"}
			}
			out = append(out, Violation{Props: props, Oracle: "ledger", Sig: "tx-complete-count",
				Detail: fmt.Sprintf("tx-complete listener for transaction %s ran %d time(s), expected %d (+%d optional)", t, g, want, opt)})
		}
	}
	return out
}

// ---------- registration of every listener style on every store ----------

type typedListener[E boltz.Entity] struct {
	r     *Run
	store string
	typ   string
	kind  string
}

func (l *typedListener[E]) HandleEntityEvent(e E) {
	k := l.kind
	if k == "" {
		k = "L1"
	}
	l.r.recordEvent(k, l.store, l.typ, e)
}

// asyncTypedListener is delivered on a goroutine of the library's own ("…Async" change types).
type asyncTypedListener[E boltz.Entity] struct{ typedListener[E] }

func (l *asyncTypedListener[E]) HandleEntityEvent(e E) {
	defer l.r.s.AsyncDone()
	l.r.s.AsyncEnter(fmt.Sprintf("async:%s:%s:%s:%s", l.kind, l.store, l.typ, safeId(l.store, e)))
	l.typedListener.HandleEntityEvent(e)
}

type typedConstraint[E boltz.Entity] struct {
	r     *Run
	store string
}

func changeName(t boltz.EntityEventType) string {
	switch {
	case t.IsCreate():
		return EvCreate
	case t.IsUpdate():
		return EvUpdate
	case t.IsDelete():
		return EvDelete
	}
	return "?"
}

func (c *typedConstraint[E]) ProcessPreCommit(state *boltz.EntityChangeState[E]) error {
	return c.r.veto(c.store, changeName(state.ChangeType), state.EntityId, true)
}

func (c *typedConstraint[E]) ProcessPostCommit(state *boltz.EntityChangeState[E]) {
	var e boltz.Entity = state.FinalState
	if state.ChangeType.IsDelete() {
		e = state.InitialState
	}
	c.r.recordEvent("L5", c.store, changeName(state.ChangeType), e)
}

type untypedConstraint struct {
	r     *Run
	store string
}

func (c *untypedConstraint) ProcessPreCommit(state boltz.UntypedEntityChangeState) error {
	return c.r.veto(c.store, changeName(state.GetChangeType()), state.GetEntityId(), false)
}

func (c *untypedConstraint) ProcessPostCommit(state boltz.UntypedEntityChangeState) {
	e := state.GetFinalState()
	if state.GetChangeType().IsDelete() {
		e = state.GetInitialState()
	}
	c.r.recordEvent("L6", c.store, changeName(state.GetChangeType()), e)
}

func registerListeners[E boltz.Entity](r *Run, name string, store boltz.EntityStore[E]) {
	types := map[string][2]boltz.EntityEventType{
		EvCreate: {boltz.EntityCreated, boltz.EntityCreatedAsync},
		EvUpdate: {boltz.EntityUpdated, boltz.EntityUpdatedAsync},
		EvDelete: {boltz.EntityDeleted, boltz.EntityDeletedAsync},
	}
	for _, typ := range []string{EvCreate, EvUpdate, EvDelete} {
		typ := typ
		sync, async := types[typ][0], types[typ][1]
		store.AddEntityEventListener(&typedListener[E]{r: r, store: name, typ: typ}, sync)
		store.AddEntityEventListenerF(func(e E) {
			defer r.s.AsyncDone()
			r.s.AsyncEnter(fmt.Sprintf("async:L2:%s:%s:%s", name, typ, safeId(name, e)))
			r.recordEvent("L2", name, typ, e)
		}, async)
		store.AddListener(func(e boltz.Entity) {
			r.recordEvent("L3", name, typ, e)
		}, sync)
		// the remaining style x delivery combinations: typed listener object on the async type, typed function
		// and untyped function the other way round
		store.AddEntityEventListener(&asyncTypedListener[E]{typedListener[E]{r: r, store: name, typ: typ, kind: "L12"}}, async)
		store.AddEntityEventListenerF(func(e E) {
			r.recordEvent("L13", name, typ, e)
		}, sync)
		store.AddListener(func(e boltz.Entity) {
			defer r.s.AsyncDone()
			r.s.AsyncEnter(fmt.Sprintf("async:L14:%s:%s:%s", name, typ, safeId(name, e)))
			r.recordEvent("L14", name, typ, e)
		}, async)
	}
	// the optional change types of L4 and L7 come from one caller-owned slice with spare capacity, the way an
	// application builds its registrations in a loop: the library must copy, not alias, what it is given
	shared := make([]boltz.EntityEventType, 2, 4)
	shared[0], shared[1] = boltz.EntityUpdated, boltz.EntityDeleted
	store.AddEntityIdListener(func(id string) {
		r.recordIdEvent("L4", name, EvDelete, id)
	}, boltz.EntityDeleted, shared[:0]...)
	// one registration call naming several change types, in every style
	store.AddEntityIdListener(func(id string) {
		r.recordIdEvent("L7", name, "*", id)
	}, boltz.EntityCreated, shared...)
	store.AddListener(func(e boltz.Entity) {
		r.recordEvent("L8", name, "*", e)
	}, boltz.EntityDeleted, boltz.EntityCreated, boltz.EntityUpdated)
	store.AddEntityEventListener(&typedListener[E]{r: r, store: name, typ: "*", kind: "L9"}, boltz.EntityUpdated, boltz.EntityDeleted, boltz.EntityCreated)
	store.AddEntityEventListenerF(func(e E) {
		defer r.s.AsyncDone()
		r.s.AsyncEnter(fmt.Sprintf("async:L10:%s:%s", name, safeId(name, e)))
		r.recordEvent("L10", name, "*", e)
	}, boltz.EntityCreatedAsync, boltz.EntityDeletedAsync, boltz.EntityUpdatedAsync)
	store.AddEntityConstraint(&typedConstraint[E]{r: r, store: name})
	store.AddUntypedEntityConstraint(&untypedConstraint{r: r, store: name})
}

// ---------- listeners registered while a transaction is in flight ----------

type lateListener struct {
	tag   string // "L11:<tx>#<op>"
	store string
	style int // 0 id listener, 1 untyped entity listener, 2 untyped constraint
	btx   int // the write transaction during which it was registered
}

func (l *Ledger) ExpectLate(ll *lateListener, evs []Ev) {
	l.mu.Lock()
	defer l.mu.Unlock()
	for _, e := range evs {
		if e.Store != ll.store {
			continue
		}
		snap := e.Snap
		if ll.style == 0 {
			snap = "id"
		}
		key := LedgerEntry{Listener: ll.tag, Store: e.Store, Type: "*", Id: e.Id, Snap: snap}.key()
		if e.Optional {
			l.optional[key]++
		} else {
			l.expected[key]++
		}
	}
}

type lateConstraint struct {
	r   *Run
	tag string
	st  string
}

func (c *lateConstraint) ProcessPreCommit(boltz.UntypedEntityChangeState) error { return nil }

func (c *lateConstraint) ProcessPostCommit(state boltz.UntypedEntityChangeState) {
	e := state.GetFinalState()
	if state.GetChangeType().IsDelete() {
		e = state.GetInitialState()
	}
	c.r.recordEvent(c.tag, c.st, "*", e)
}

// lateListen registers the listener of a "listen" operation once (a Batch body may run again).
func (r *Run) lateListen(tag string, op Op, btx int) {
	r.mu.Lock()
	if r.late == nil {
		r.late = map[string]*lateListener{}
	}
	if _, done := r.late[tag]; done {
		r.mu.Unlock()
		return
	}
	r.late[tag] = &lateListener{tag: tag, store: op.S, style: op.N % 3, btx: btx}
	r.mu.Unlock()
	r.probe("late_listener_registered")
	store, name := r.st.ByName(op.S), op.S
	switch op.N % 3 {
	case 0:
		store.AddEntityIdListener(func(id string) { r.recordIdEvent(tag, name, "*", id) }, boltz.EntityCreated, boltz.EntityUpdated, boltz.EntityDeleted)
	case 1:
		store.AddListener(func(e boltz.Entity) { r.recordEvent(tag, name, "*", e) }, boltz.EntityCreated, boltz.EntityUpdated, boltz.EntityDeleted)
	case 2:
		store.AddUntypedEntityConstraint(&lateConstraint{r: r, tag: tag, st: name})
	}
}

// safeId: the id of the entity handed to a listener, "" if the library handed over a nil entity (that is a wrong
// event, recorded as such - not a reason for the listener to crash).
func safeId(store string, e boltz.Entity) string {
	if snapEntity(store, e) == "<nil>" {
		return ""
	}
	return e.GetId()
}
